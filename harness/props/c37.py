"""C37  Byte-range bookkeeping is exact (util/spans.py: Spans, DataSpans).

Three independent views of every history are compared step by step:
  * the real Spans / DataSpans objects from /repo,
  * a Python reference set of integers / dict offset -> byte (the DIRECT ORACLE:
    the property statement itself, independent of the Coq model),
  * the Coq model Model/Spans.v (CORRESPONDENCE): the model executes the same
    history inside Coq and folds every observable state (len, number of spans,
    every (start, length), every byte, every query result, every AssertionError)
    into a per-step checksum; the driver folds the implementation's observations
    the same way and Coq compares the last checksum (each step's checksum chains
    on the previous one, so a disagreement at any step changes the last).

Observation discipline: every history has a `look` interval (1, 2, 3 or 5).  The
full observable state (iteration / get_chunks, len, bool, each, get_spans) is
queried only after every `look`-th step and at the end; in between only what
the operations themselves return (contains / get / pop results, exceptions) is
judged.  Queries after every single mutation cannot notice state that survives
between two queries (a cached answer keyed on something that two mutations
together leave unchanged), so most histories do not query that often; the Coq
side uses the same discipline (sp_trace_look / ds_trace_look).
"""
import json
import os

from core import env
from core import term as T

ID = "C37"
GEN = []
RULE = ("cases: one case = one seeded operation history (Spans: add/remove/contains/+/-/&/+=/-= ; DataSpans: "
        "add/remove/get/pop) of length <= 60 quick / <= 200 thorough over offsets 0..300 (profiles: tiny 0..24, "
        "normal 0..300, big 2**64+..., 2**32 boundary), plus hand-written edge histories (zero length, adjacency, "
        "overlap shapes, 2**64 offsets, block moves); each history has a look interval 1/2/3/5: the full state (iteration, "
        "len, each, get_chunks, _dump, get_spans) is compared with a reference set / dict only after every look-th step and at "
        "the end, operation results (contains/get/pop) at every step; sequences are biased towards 'remove/pop a block, add an "
        "equally long block elsewhere'; distinct = distinct (history, look); non-trivial = history that reaches a state with "
        ">= 3 spans and exercises a merge and a split")
META = {
    "title": "Byte-range bookkeeping is exact",
    "level_text": ("Theorems in Coq over an executable model of util/spans.py that follows the code's algorithms (scan/merge in "
                   "Spans.add, the four cases of Spans.remove with the sort/del, __and__ through bounds - other, the A-E cases and "
                   "merge pass of DataSpans.add, DataSpans.remove/get/pop): for EVERY operation history from the empty object the "
                   "representation invariant holds, no internal assertion fires, Spans denotes exactly the reference set "
                   "(add=union, remove=difference, &=intersection, membership, len=cardinality) and DataSpans denotes exactly the "
                   "partial map offset->byte (later write wins, remove deletes, get/pop return the bytes iff all present).  "
                   "The model is run against the real classes on seeded histories, which are also judged by a Python set/dict oracle."),
    "level_note": ("Trusted: Model/Spans.v as a reading of spans.py (hand-written, exercised against the real classes on every run; "
                   "not regenerated from source), the driver.  Negative starts (AssertionError in the code) are outside the N-typed model "
                   "and only exercised on the implementation."),
    "technique": "Coq proof (all histories) over a hand-written executable model + differential run vs implementation + set/dict oracle",
    "design_ref": "8/C37",
    "trusted_base": ["Model/Spans.v transcription of util/spans.py (validated by differential execution on every run)"],
    "assumptions": ["callers pass non-negative integer offsets/lengths and bytes objects (what the downloader does)"],
}

IMPORTS = ["Lib.Hex", "Model.Spans"]
MOD = 2305843009213693951


def mix_list(h, vs):
    for v in vs:
        h = (h * 1000003 + v + 1) & MOD
    return h


# =============================================================================
# reference helpers
# =============================================================================
def runs_of(ints):
    """canonical [(start, length)] of a set of ints"""
    out = []
    for x in sorted(ints):
        if out and out[-1][0] + out[-1][1] == x:
            out[-1][1] += 1
        else:
            out.append([x, 1])
    return [tuple(p) for p in out]


def set_of(pairs):
    s = set()
    for (a, n) in pairs:
        s.update(range(a, a + n))
    return s


def chunks_of(d):
    """canonical [(start, bytes)] of a dict offset -> byte"""
    out = []
    for x in sorted(d):
        if out and out[-1][0] + len(out[-1][1]) == x:
            out[-1][1].append(d[x])
        else:
            out.append([x, bytearray([d[x]])])
    return [(a, bytes(b)) for a, b in out]


# =============================================================================
# Spans histories
# =============================================================================
BASES = {"tiny": (0, 24), "normal": (0, 300), "big64": (2 ** 64 - 40, 120), "big32": (2 ** 32 - 30, 90), "huge": (2 ** 70 + 12345, 60)}


def _profile(r, i):
    return ["normal", "normal", "tiny", "normal", "big64", "tiny", "normal", "big32", "normal", "huge"][i % 10]


def _pick_span(r, base, width, cur, maxlen, zero_ok=True):
    """(start, length) near existing boundaries with some probability"""
    k = r.random()
    if zero_ok and k < 0.04:
        # zero length: mostly strictly inside an existing span, at its edges, or just outside
        if cur and r.random() < 0.8:
            (a, n) = r.choice(cur)
            return r.choice([a + r.randrange(n), a + n // 2, a, a + n, a + n - 1, a + 1, max(base, a - 1)]), 0
        return base + r.randrange(width), 0
    if k < 0.45 and cur:
        (a, n) = r.choice(cur)
        # boundaries of an existing span: adjacent before/after, exact, inside, straddling
        choice = r.randrange(9)
        ln = 1 + r.randrange(maxlen)
        if choice == 0:
            return a + n, ln                         # adjacent after
        if choice == 1:
            return max(base, a - ln), min(ln, a - max(base, a - ln)) or 1   # adjacent before (or overlap at base)
        if choice == 2:
            return a, n                              # exact
        if choice == 3:
            return a + n + 1, ln                     # one-byte gap after
        if choice == 4 and n > 2:
            return a + 1, n - 2                      # strictly inside
        if choice == 5:
            return a, 1 + r.randrange(n)             # prefix
        if choice == 6:
            ln2 = 1 + r.randrange(n)
            return a + n - ln2, ln2                  # suffix
        if choice == 7:
            return max(base, a - 1 - r.randrange(3)), n + 2 + r.randrange(6)   # cover
        return a + r.randrange(n), ln                # straddle right end
    ln = 1 + r.randrange(maxlen)
    if r.random() < 0.1:
        ln = 1 + r.randrange(width)
    return base + r.randrange(width), ln


def gen_spans_history(r, nops, profile):
    """ops as tuples; generation tracks a reference so choices reach deep states"""
    base, width = BASES[profile]
    maxlen = 6 if profile == "tiny" else 25
    ref = set()
    ops = []
    while len(ops) < nops:
        cur = runs_of(ref)
        k = r.random()
        if k < 0.08 and cur:
            # move a block: remove m bytes here, add m bytes elsewhere (element count unchanged)
            (a, n) = r.choice(cur)
            m = n if r.random() < 0.5 else 1 + r.randrange(n)
            a2 = a if r.random() < 0.5 else a + n - m
            dest = a2 + m if r.random() < 0.3 else base + r.randrange(width)
            pair = [("remove", a2, m), ("add", dest, m)]
            if r.random() < 0.25:
                pair.reverse()
            for op in pair:
                ops.append(op)
                if op[0] == "add":
                    ref |= set(range(op[1], op[1] + op[2]))
                else:
                    ref -= set(range(op[1], op[1] + op[2]))
        elif k < 0.36 or not ref:
            a, n = _pick_span(r, base, width, cur, maxlen)
            ops.append(("add", a, n))
            if n:
                ref |= set(range(a, a + n))
            else:
                ops.append(("contains", max(base, a - 1), 2))
        elif k < 0.62:
            a, n = _pick_span(r, base, width, cur, maxlen)
            ops.append(("remove", a, n))
            if n:
                ref -= set(range(a, a + n))
            else:
                ops.append(("contains", max(base, a - 1), 2))
        elif k < 0.74:
            a, n = _pick_span(r, base, width, cur, maxlen)
            ops.append(("contains", a, n))
        else:
            kind = r.choice(["union", "diff", "inter", "inter", "iadd", "isub"])
            m = r.choice([0, 1, 1, 2, 3, 5])
            pairs = [_pick_span(r, base, width, cur, maxlen, zero_ok=False) for _ in range(m)]
            if r.random() < 0.3:
                pairs.sort()
            ops.append((kind, tuple(pairs)))
            o = set_of(pairs)
            if kind in ("union", "iadd"):
                ref |= o
            elif kind in ("diff", "isub"):
                ref -= o
            else:
                ref &= o
    return ops


def spans_term(ops):
    out = []
    for op in ops:
        if op[0] in ("add", "remove", "contains"):
            out.append("%s %s %s" % ({"add": "OpAdd", "remove": "OpRemove", "contains": "OpContains"}[op[0]], T.N(op[1]), T.N(op[2])))
        else:
            name = {"union": "OpUnion", "diff": "OpDiff", "inter": "OpInter", "iadd": "OpIAdd", "isub": "OpISub"}[op[0]]
            out.append("%s %s" % (name, T.lst([T.pair(T.N(a), T.N(n)) for (a, n) in op[1]])))
    return T.lst(out)


def obs_spans(s):
    pairs = list(s)
    out = [s.len(), len(pairs)]
    for (a, n) in pairs:
        out += [a, n]
    return out


class Stop(Exception):
    pass


def exec_spans_history(ctx, ops, case, look=1, report=True, per_step=False):
    """Run on the real Spans and on the reference set.  The state is queried
    only after every `look`-th step and at the end.  Returns a dict: h (chained
    checksum in the sp_trace_look format, None if the history stopped early),
    done, deep, ok, trace (per-step checksums in the sp_trace format, only with
    per_step=True, a diagnostic mode that queries after every step)."""
    from allmydata.util.spans import Spans
    s = Spans()
    ref = set()
    hl = 0
    h = 0
    trace = []
    st = {"deep": False, "merged": False, "split": False, "last_look": -1, "done": 0}
    case = dict(case, look=look)

    def fail(kind, what, step, expected=None, observed=None):
        if report:
            ctx.oracle_fail(kind, "step %d %r (state last queried after step %d): %s" % (step, ops[step], st["last_look"], what),
                            case=dict(case, step=step, op=list(ops[step])), expected=expected, observed=observed)
        raise Stop()

    def full_look(step, kind):
        pairs = list(s)
        want = runs_of(ref)
        if pairs != want:
            got_set = set_of(pairs) if all(n >= 0 and n < 10 ** 6 for _, n in pairs) else None
            if got_set == ref:
                fail("spans-representation-not-canonical:" + kind, "iteration gives %r, canonical form of the same set is %r" % (pairs, want), step,
                     expected=want, observed=pairs)
            fail("spans-set-differs:" + kind, "Spans holds %r, reference set is %r" % (pairs, want), step, expected=want, observed=pairs)
        if s.len() != len(ref):
            fail("spans-len-differs", "len() = %d, reference set has %d" % (s.len(), len(ref)), step, expected=len(ref), observed=s.len())
        if bool(s) != bool(ref):
            fail("spans-bool-differs", "bool() = %s" % bool(s), step)
        if len(ref) <= 2000 and list(s.each()) != sorted(ref):
            fail("spans-each-differs", "each() = %r" % list(s.each())[:50], step, expected=sorted(ref)[:50])
        st["last_look"] = step

    c = look - 1
    try:
        for step, op in enumerate(ops):
            kind = op[0]
            full = (c == 0) or per_step
            nruns = len(runs_of(ref))
            before = list(s) if full else None
            code = 1
            got = None
            try:
                if kind == "add":
                    if op[2] > 0:
                        ref |= set(range(op[1], op[1] + op[2]))
                    r = s.add(op[1], op[2])
                    if r is not s:
                        fail("spans-add-does-not-return-self", "add returned %r" % (r,), step)
                elif kind == "remove":
                    if op[2] > 0:
                        ref -= set(range(op[1], op[1] + op[2]))
                    r = s.remove(op[1], op[2])
                    if r is not s:
                        fail("spans-remove-does-not-return-self", "remove returned %r" % (r,), step)
                elif kind == "contains":
                    code = 7
                    got = (op[1], op[2]) in s
                    want = op[2] > 0 and all(x in ref for x in range(op[1], op[1] + op[2]))
                    if got != want:
                        fail("spans-contains-wrong", "(%d,%d) in spans = %s, reference set says %s" % (op[1], op[2], got, want), step,
                             expected=want, observed=got)
                else:
                    other = Spans(list(op[1]))
                    oref = set_of(op[1])
                    if set(other.each()) != oref:
                        fail("spans-constructor-from-list-differs", "Spans(%r) holds %r" % (op[1], other.dump()), step,
                             expected=runs_of(oref), observed=list(other))
                    obefore = list(other)
                    if kind == "union":
                        s2 = s + other
                        ref = ref | oref
                    elif kind == "diff":
                        s2 = s - other
                        ref = ref - oref
                    elif kind == "inter":
                        s2 = s & other
                        ref = ref & oref
                    elif kind == "iadd":
                        alias = s            # the same object under a second name
                        s2 = s
                        s2 += other
                        ref = ref | oref
                    else:
                        alias = s
                        s2 = s
                        s2 -= other
                        ref = ref - oref
                    if kind in ("iadd", "isub"):
                        # a set of integers is updated in place by += / -=: whoever holds the object
                        # under another name sees the change (b = a; b -= t  =>  a is b, a == b)
                        seen = list(alias)
                        if s2 is not alias or seen != runs_of(ref):
                            fail("spans-inplace-op-not-in-place:" + kind,
                                 "after `b = a; b %s= Spans(%r)` %s; a (the other name of the object) holds %r, b holds %r, a set updated in place holds %r"
                                 % ("+" if kind == "iadd" else "-", list(op[1]), "b is a" if s2 is alias else "b is no longer a", seen, list(s2), runs_of(ref)),
                                 step, expected=runs_of(ref), observed=seen)
                    if kind in ("union", "diff", "inter"):
                        if before is not None and list(s) != before:
                            fail("spans-binary-op-mutates-left-operand", "left operand changed from %r to %r" % (before, list(s)), step)
                        if s2 is s and kind != "inter":
                            fail("spans-binary-op-returns-self", "operator returned the left operand itself", step)
                    if list(other) != obefore:
                        fail("spans-binary-op-mutates-right-operand", "right operand changed from %r to %r" % (obefore, list(other)), step)
                    s = s2
            except AssertionError:
                code = 0
                zero = kind in ("add", "remove") and op[2] == 0
                if not zero:
                    fail("spans-unexpected-assertion:" + kind, "AssertionError on a valid operation", step, observed=s.dump())
                if before is not None and list(s) != before:
                    fail("spans-rejected-op-mutates", "rejected op changed state %r -> %r" % (before, list(s)), step)
            else:
                if kind in ("add", "remove") and op[2] == 0:
                    fail("spans-zero-length-accepted", "%s(%d, 0) did not raise AssertionError" % (kind, op[1]), step)
            res = [code] + ([int(got)] if kind == "contains" else [])
            hl = mix_list(hl, res)
            nruns2 = len(runs_of(ref))
            if nruns2 < nruns and kind in ("add", "union", "iadd"):
                st["merged"] = True
            if nruns2 > nruns and kind in ("remove", "diff", "isub", "inter"):
                st["split"] = True
            if nruns2 >= 3 and st["merged"] and st["split"]:
                st["deep"] = True
            if c == 0:
                # ---- the property, evaluated on the observable state ----------------
                full_look(step, kind)
                hl = mix_list(hl, obs_spans(s))
                c = look - 1
            else:
                c -= 1
            if per_step:
                h = mix_list(h, res + obs_spans(s))
                trace.append(h)
            st["done"] = step + 1
        if ops:
            full_look(len(ops) - 1, "end")
        hl = mix_list(hl, [9] + obs_spans(s))
    except Stop:
        return {"h": None, "done": st["done"], "deep": st["deep"], "ok": False, "trace": trace}
    except Exception as e:   # any other exception out of the implementation
        if report:
            k = st["done"]
            ctx.oracle_fail("spans-op-raises:" + type(e).__name__, "step %d %r raised %s: %s" % (k, ops[min(k, len(ops) - 1)], type(e).__name__, e),
                            case=dict(case, step=k, op=list(ops[min(k, len(ops) - 1)])))
        return {"h": None, "done": st["done"], "deep": st["deep"], "ok": False, "trace": trace}
    return {"h": hl, "done": st["done"], "deep": st["deep"], "ok": True, "trace": trace}


LOOKS = [1, 2, 3, 5]


EDGE_SPANS = [
    [("add", 0, 1), ("add", 1, 1), ("add", 3, 1), ("add", 2, 1), ("contains", 0, 4), ("contains", 0, 5), ("remove", 1, 2), ("contains", 0, 1)],
    [("add", 10, 0), ("remove", 10, 0), ("add", 10, 5), ("remove", 0, 0), ("contains", 10, 0), ("contains", 12, 0), ("contains", 3, 0)],
    [("add", 10, 5), ("add", 20, 5), ("add", 30, 5), ("add", 15, 5), ("add", 26, 3), ("add", 25, 1), ("add", 29, 1), ("remove", 12, 20), ("remove", 0, 100)],
    [("add", 10, 5), ("add", 20, 5), ("add", 30, 5), ("add", 12, 20), ("remove", 11, 1), ("remove", 10, 1), ("remove", 34, 1), ("remove", 12, 22)],
    [("add", 10, 20), ("remove", 15, 5), ("remove", 12, 1), ("remove", 27, 1), ("add", 0, 100), ("remove", 1, 98), ("add", 1, 98)],
    [("add", 5, 5), ("add", 15, 5), ("add", 25, 5), ("remove", 5, 5), ("add", 5, 5), ("remove", 25, 5), ("remove", 15, 5), ("remove", 5, 5), ("add", 1, 1)],
    [("add", 5, 5), ("add", 15, 5), ("add", 25, 5), ("remove", 7, 20), ("add", 7, 20), ("remove", 4, 27), ("add", 0, 3), ("remove", 1, 1)],
    [("add", 2 ** 64 - 1, 1), ("add", 2 ** 64, 1), ("add", 2 ** 64 + 2, 300), ("remove", 2 ** 64, 1), ("contains", 2 ** 64 + 2, 300),
     ("contains", 2 ** 64 + 1, 2), ("add", 2 ** 63 - 5, 10), ("remove", 2 ** 63 - 4, 8), ("inter", ((2 ** 63, 2 ** 10), (2 ** 64 - 1, 5)))],
    [("add", 10, 5), ("add", 20, 5), ("inter", ((12, 10),)), ("inter", ((0, 100),)), ("inter", ()), ("inter", ((1, 1),)), ("add", 3, 3), ("inter", ((4, 1), (5, 1)))],
    [("add", 10, 5), ("add", 20, 5), ("inter", ((0, 11), (14, 7), (24, 9))), ("union", ((11, 3), (21, 3))), ("diff", ((12, 1), (22, 1))), ("isub", ((0, 12),)), ("iadd", ((0, 12),))],
    [("add", 100, 10), ("inter", ((105, 200),)), ("add", 0, 5), ("inter", ((3, 105),)), ("inter", ((4, 1), (109, 1), (300, 5)))],
    [("union", ((5, 5), (10, 5), (3, 1), (4, 1))), ("diff", ((0, 300),)), ("union", ()), ("diff", ()), ("iadd", ()), ("isub", ()), ("inter", ((1, 1),))],
    [("add", 0, 300), ("remove", 1, 1), ("remove", 3, 1), ("remove", 5, 1), ("remove", 7, 1), ("add", 1, 7), ("remove", 0, 300)],
    [("add", 1, 1), ("add", 3, 1), ("add", 5, 1), ("add", 7, 1), ("add", 9, 1), ("add", 2, 1), ("add", 8, 1), ("add", 4, 3), ("remove", 2, 7), ("remove", 1, 9)],
    # zero-length arguments inside a span, at its edges and outside, each followed by membership queries across that offset
    [("add", 10, 8), ("remove", 13, 0), ("contains", 10, 8), ("contains", 12, 3), ("add", 14, 0), ("contains", 13, 2), ("remove", 10, 0), ("remove", 18, 0), ("add", 18, 0),
     ("add", 9, 0), ("contains", 10, 8), ("contains", 9, 2), ("contains", 17, 2), ("contains", 13, 0), ("contains", 18, 0), ("remove", 14, 1), ("remove", 14, 0), ("contains", 13, 3)],
    [("union", ((10, 8),)), ("contains", 12, 0), ("inter", ((0, 100),)), ("remove", 12, 0), ("contains", 11, 3), ("diff", ((12, 1),)), ("remove", 12, 0), ("add", 12, 0),
     ("contains", 11, 3), ("contains", 11, 1), ("contains", 13, 5), ("iadd", ((12, 1),)), ("remove", 12, 0), ("contains", 10, 8)],
]


def spans_part(ctx):
    ctx.correspondence("spans-history-vs-model")
    terms = []
    info = []
    maxops = ctx.n(60, 200)
    n = ctx.n(140, 1500)
    cases = []
    for k, ops in enumerate(EDGE_SPANS):
        cases.append(({"stream": "spans-edge", "index": k}, ops, "spans-edge", 1))
        cases.append(({"stream": "spans-edge", "index": k}, ops, "spans-edge", [2, 3, 5][k % 3]))
    for i in range(n):
        r = ctx.rng("spans", i)
        profile = _profile(r, i)
        nops = r.choice([maxops, maxops, maxops // 2, maxops // 4, 5])
        look = LOOKS[r.randrange(4)]
        ops = gen_spans_history(r, nops, profile)
        cases.append(({"stream": "spans", "index": i, "profile": profile, "nops": nops}, ops, "spans-" + profile, look))
    for j, path in enumerate(corpus_files("spans")):
        rec = json.load(open(path))
        for look in (1, [2, 3, 5][j % 3]):
            cases.insert(0, ({"stream": "corpus", "file": os.path.basename(path)}, [_untuple(o) for o in rec["ops"]], "spans-corpus", look))
    for case, ops, kind, look in cases:
        res = exec_spans_history(ctx, ops, dict(case, ops=[list(o) for o in ops]), look=look)
        ctx.case(("spans", look, tuple(ops)) if res["deep"] else None, kind=kind)
        ctx.count("look:spans.every-%d" % look)
        for op in ops[:res["done"]]:
            ctx.count("op:spans." + op[0])
        if res["h"] is None:
            continue
        terms.append("N.eqb (sp_trace_look %s %s) %s" % (T.nat(look), spans_term(ops), T.N(res["h"])))
        info.append((case, ops, look))
        if len(ctx.samples) < 2 and kind == "spans-tiny":
            ctx.sample({"kind": "Spans history", "state_queried_every": look, "ops": [list(o) for o in ops[:12]], "checksum": res["h"]})
    bad = ctx.coq_check(IMPORTS, terms, tag="c37sp", shard=60)
    for ix in bad:
        case, ops, look = info[ix]
        diag = exec_spans_history(ctx, ops, dict(case), look=1, report=False, per_step=True)
        step, model_h = locate(ctx, "sp_trace", spans_term(ops), diag["trace"])
        ctx.mismatch("spans-model-vs-impl", "Coq model and real Spans disagree (state queried every %d steps); when queried after every step they differ first at step %s (%r)"
                     % (look, step, ops[step] if step is not None else None),
                     case=dict(case, ops=[list(o) for o in ops], step=step, look=look), expected={"model_checksum": model_h},
                     observed={"impl_checksum": diag["trace"][step] if step is not None else None}, correspondence="spans-history-vs-model")
    ctx.trace(len(terms) - len(bad))


def locate(ctx, fn, term, trace):
    """first step at which the model's per-step chained checksum differs from the implementation's"""
    out = ctx.coq_eval(IMPORTS, "%s %s" % (fn, term))
    import re
    m = re.search(r"=\s*\[(.*?)\]", out, re.S)
    if not m:
        return None, out[-300:]
    vals = [int(x) for x in re.findall(r"\d+", m.group(1))]
    for i, (a, b) in enumerate(zip(vals, trace)):
        if a != b:
            return i, a
    return None, None


# =============================================================================
# DataSpans histories
# =============================================================================
def gen_ds_history(r, nops, profile):
    base, width = BASES[profile]
    maxlen = 5 if profile == "tiny" else 30
    ref = {}
    ops = []

    def apply(op):
        ops.append(op)
        if op[0] == "add":
            for j, b in enumerate(op[2]):
                ref[op[1] + j] = b
        elif op[0] == "remove":
            for x in [x for x in ref if op[1] <= x < op[1] + op[2]]:
                del ref[x]
        elif op[0] == "pop":
            a, n = op[1], op[2]
            if n and all(x in ref for x in range(a, a + n)):
                for x in range(a, a + n):
                    del ref[x]

    def straddle(x, n):
        """after a zero-length operation at x: read across x (the chunk holding x, whole
        and in part), so that a chunk cut or damaged at x shows in what get/pop return"""
        if n != 0:
            return
        for (a, m) in runs_of(ref.keys()):
            if a <= x <= a + m:
                lo = max(a, x - 1 - r.randrange(3))
                hi = min(a + m, x + 1 + r.randrange(3))
                if hi > lo:
                    apply(("get", lo, hi - lo))
                if r.random() < 0.5:
                    apply(("get", a, m))
                if r.random() < 0.25 and hi > lo:
                    apply(("pop", lo, hi - lo))
                break

    while len(ops) < nops:
        cur = runs_of(ref.keys())
        k = r.random()
        if k < 0.14 and cur:
            # consume a block and receive an equally long one elsewhere: the number of
            # bytes (and often of chunks) held is the same afterwards, the offsets are not
            (a, n) = r.choice(cur)
            m = n if r.random() < 0.6 else 1 + r.randrange(n)
            a2 = a if r.random() < 0.5 else a + n - m
            if r.random() < 0.3:
                dest = a2 + m                      # the next block (steady state of a download)
            else:
                dest = base + r.randrange(width)
                for _ in range(8):                 # prefer an isolated place: chunk count unchanged too
                    if not any(x in ref for x in range(max(0, dest - 1), dest + m + 1)):
                        break
                    dest = base + r.randrange(width)
            first = (r.choice(["pop", "pop", "remove"]), a2, m)
            second = ("add", dest, bytes(r.getrandbits(8) for _ in range(m)))
            pair = [first, second]
            if r.random() < 0.2:
                pair.reverse()
            for op in pair:
                apply(op)
            if r.random() < 0.3:
                apply(("get", dest, m))
        elif k < 0.46 or not ref:
            a, n = _pick_span(r, base, width, cur, maxlen)
            apply(("add", a, bytes(r.getrandbits(8) for _ in range(n))))
            straddle(a, n)
        elif k < 0.64:
            a, n = _pick_span(r, base, width, cur, maxlen)
            apply(("remove", a, n))
            straddle(a, n)
        elif k < 0.82:
            a, n = _pick_span(r, base, width, cur, maxlen)
            apply(("get", a, n))
        else:
            a, n = _pick_span(r, base, width, cur, maxlen)
            apply(("pop", a, n))
            straddle(a, n)
    return ops


def ds_term(ops):
    out = []
    for op in ops:
        if op[0] == "add":
            out.append("DAdd %s %s" % (T.N(op[1]), T.bytes_(op[2])))
        else:
            out.append("%s %s %s" % ({"remove": "DRemove", "get": "DGet", "pop": "DPop"}[op[0]], T.N(op[1]), T.N(op[2])))
    return T.lst(out)


def obs_bytes(b):
    if b is None:
        return [0]
    return [1, len(b)] + list(b)


def obs_dspans(d):
    chunks = d.get_chunks()
    out = [d.len(), len(chunks)]
    for (a, data) in chunks:
        out += [a, len(data)] + list(data)
    return out


def obs_ds_full(d):
    """get_chunks/len and get_spans, in the format of obs_ds_full in Model/Spans.v"""
    return obs_dspans(d) + [1] + obs_spans(d.get_spans())


def exec_ds_history(ctx, ops, case, look=1, report=True, per_step=False):
    """Same discipline as exec_spans_history: get_chunks / len / bool / get_spans /
    _dump are queried only after every `look`-th step and at the end; get and pop
    are operations of the history and are judged whenever they occur."""
    from allmydata.util.spans import DataSpans
    d = DataSpans()
    ref = {}
    hl = 0
    h = 0
    trace = []
    st = {"deep": False, "merged": False, "split": False, "last_look": -1, "done": 0}
    case = dict(case, look=look)

    def fail(kind, what, step, expected=None, observed=None):
        if report:
            ctx.oracle_fail(kind, "step %d %r (state last queried after step %d): %s" % (step, _show(ops[step]), st["last_look"], what),
                            case=dict(case, step=step, op=_show(ops[step])), expected=expected, observed=observed)
        raise Stop()

    def full_look(step, kind):
        chunks = d.get_chunks()
        want_chunks = chunks_of(ref)
        if chunks != want_chunks:
            got_map = {}
            for (a, data) in chunks:
                for j, b in enumerate(data):
                    got_map.setdefault(a + j, b)
            if got_map == ref:
                fail("dataspans-representation-not-canonical:" + kind, "chunks %r are not the merged sorted form" % _hc(chunks), step,
                     expected=_hc(want_chunks), observed=_hc(chunks))
            fail("dataspans-map-differs:" + kind, "DataSpans holds %r, reference map is %r" % (_hc(chunks), _hc(want_chunks)), step,
                 expected=_hc(want_chunks), observed=_hc(chunks))
        if d.len() != len(ref):
            fail("dataspans-len-differs", "len() = %d, reference has %d" % (d.len(), len(ref)), step)
        if bool(d) != bool(ref):
            fail("dataspans-bool-differs", "bool() = %s" % bool(d), step)
        if len(ref) <= 2000 and list(d._dump()) != sorted(ref):
            fail("dataspans-dump-differs", "_dump() = %r" % list(d._dump())[:50], step, expected=sorted(ref)[:50])
        gs = d.get_spans()
        want_gs = runs_of(ref.keys())
        if list(gs) != want_gs:
            held = set(ref)
            rep = set_of(list(gs)) if all(0 <= n < 10 ** 6 for _, n in gs) else set()
            fail("dataspans-get-spans-differs", "get_spans() = %r but the offsets held are %r (not reported: %r, reported but not held: %r)"
                 % (list(gs), want_gs, sorted(held - rep)[:20], sorted(rep - held)[:20]), step, expected=want_gs, observed=list(gs))
        st["last_look"] = step

    c = look - 1
    try:
        for step, op in enumerate(ops):
            kind = op[0]
            nruns = len(runs_of(ref.keys()))
            extra = []
            code = 1
            if kind == "add":
                for j, b in enumerate(op[2]):
                    ref[op[1] + j] = b
                d.add(op[1], op[2])
            elif kind == "remove":
                for x in [x for x in ref if op[1] <= x < op[1] + op[2]]:
                    del ref[x]
                d.remove(op[1], op[2])
            else:
                a, n = op[1], op[2]
                present = all(x in ref for x in range(a, a + n))
                if n > 0:
                    want = bytes(ref[x] for x in range(a, a + n)) if present else None
                else:
                    # zero-length read: the code answers b"" when `start` is held and None otherwise
                    # (neither caller relies on it; theorem dataspans_refine_partial_map states it)
                    want = b"" if a in ref else None
                if kind == "get":
                    code = 7
                    got = d.get(a, n)
                else:
                    code = 8
                    got = d.pop(a, n)
                    if want:
                        for x in range(a, a + n):
                            del ref[x]
                if got != want:
                    fail("dataspans-%s-wrong" % kind, "%s(%d,%d) = %r, reference map gives %r" % (kind, a, n, _hx(got), _hx(want)), step,
                         expected=_hx(want), observed=_hx(got))
                extra = obs_bytes(got)
            res = [code] + extra
            hl = mix_list(hl, res)
            nruns2 = len(runs_of(ref.keys()))
            if kind == "add" and nruns and nruns2 <= nruns and len(op[2]):
                st["merged"] = True
            if nruns2 > nruns and kind in ("remove", "pop"):
                st["split"] = True
            if nruns2 >= 3 and st["merged"] and st["split"]:
                st["deep"] = True
            if c == 0:
                full_look(step, kind)
                hl = mix_list(hl, obs_ds_full(d))
                c = look - 1
            else:
                c -= 1
            if per_step:
                h = mix_list(h, res + obs_dspans(d))
                trace.append(h)
            st["done"] = step + 1
        if ops:
            full_look(len(ops) - 1, "end")
        hl = mix_list(hl, [9] + obs_ds_full(d))
        # the copy constructor at the end of the history
        cp = DataSpans(d)
        if cp.get_chunks() != d.get_chunks():
            fail("dataspans-copy-differs", "DataSpans(other) = %r" % _hc(cp.get_chunks()), len(ops) - 1)
        if list(cp.get_spans()) != runs_of(ref.keys()):
            fail("dataspans-copy-get-spans-differs", "DataSpans(other).get_spans() = %r" % list(cp.get_spans()), len(ops) - 1)
    except Stop:
        return {"h": None, "done": st["done"], "deep": st["deep"], "ok": False, "trace": trace}
    except Exception as e:
        if report:
            k = st["done"]
            ctx.oracle_fail("dataspans-op-raises:" + type(e).__name__, "step %d %r raised %s: %s" % (k, _show(ops[min(k, len(ops) - 1)]), type(e).__name__, e),
                            case=dict(case, step=k, op=_show(ops[min(k, len(ops) - 1)])))
        return {"h": None, "done": st["done"], "deep": st["deep"], "ok": False, "trace": trace}
    return {"h": hl, "done": st["done"], "deep": st["deep"], "ok": True, "trace": trace}


def _hx(b):
    return None if b is None else bytes(b).hex()


def _hc(chunks):
    return [(a, bytes(b).hex()) for a, b in chunks]


def _show(op):
    return [op[0], op[1], op[2].hex() if isinstance(op[2], (bytes, bytearray)) else op[2]]


def _untuple(o):
    """corpus JSON -> op tuple"""
    if o[0] in ("union", "diff", "inter", "iadd", "isub"):
        return (o[0], tuple(tuple(p) for p in o[1]))
    if o[0] == "add" and isinstance(o[2], str):
        return (o[0], o[1], bytes.fromhex(o[2]))
    return tuple(o)


B = bytes
EDGE_DS = [
    [("add", 10, b"abcde"), ("add", 15, b"fgh"), ("add", 5, b"vwxyz"), ("get", 5, 13), ("get", 5, 14), ("get", 4, 2), ("pop", 8, 4), ("get", 5, 3), ("get", 12, 6)],
    # A..E of add
    [("add", 10, b"OLD"), ("add", 8, b"NEW"), ("get", 8, 5)],                          # a then b
    [("add", 10, b"OLDD"), ("add", 10, b"NEW"), ("get", 10, 4)],                        # b
    [("add", 10, b"OLD"), ("add", 10, b"NEW"), ("add", 10, b"NEWW"), ("get", 10, 4)],   # c1, c2
    [("add", 10, b"OLDD"), ("add", 11, b"NEW"), ("add", 12, b"XYZW"), ("get", 10, 6)],   # d1, d2
    [("add", 10, b"OLLDD"), ("add", 11, b"NEW"), ("get", 10, 5)],                       # e
    [("add", 10, b"aaa"), ("add", 20, b"bbb"), ("add", 30, b"ccc"), ("add", 8, b"0123456789012345678901234567"), ("get", 8, 28), ("get", 8, 29)],
    [("add", 10, b"aaa"), ("add", 20, b"bbb"), ("add", 30, b"ccc"), ("add", 13, b"1234567"), ("add", 23, b"7654321"), ("get", 10, 23), ("remove", 11, 21), ("get", 10, 1), ("get", 32, 1)],
    [("add", 10, b""), ("add", 10, b"x"), ("add", 11, b""), ("add", 9, b""), ("get", 10, 0), ("get", 9, 0), ("get", 11, 0), ("pop", 10, 0), ("remove", 10, 0), ("pop", 10, 1), ("pop", 10, 1)],
    [("add", 10, b"abcdefghij"), ("remove", 13, 2), ("remove", 10, 1), ("remove", 19, 1), ("remove", 11, 2), ("remove", 15, 4), ("get", 10, 10)],
    [("add", 10, b"abc"), ("add", 20, b"def"), ("add", 30, b"ghi"), ("remove", 11, 20), ("pop", 10, 1), ("pop", 31, 2), ("pop", 31, 2), ("remove", 0, 100)],
    [("add", 2 ** 64 - 2, b"abcd"), ("add", 2 ** 64 + 2, b"ef"), ("get", 2 ** 64 - 1, 4), ("pop", 2 ** 64, 1), ("get", 2 ** 64 - 2, 2), ("remove", 2 ** 64 - 3, 2 ** 64), ("add", 2 ** 70, b"z")],
    [("add", 0, b"a"), ("add", 2, b"c"), ("add", 4, b"e"), ("add", 1, b"b"), ("add", 3, b"d"), ("get", 0, 5), ("pop", 0, 5), ("get", 0, 1)],
    [("add", 5, b"12345"), ("add", 3, b"ab"), ("add", 10, b"cd"), ("add", 0, b"xyz"), ("get", 0, 12), ("add", 4, b"Q"), ("add", 9, b"RS"), ("get", 0, 12)],
    # zero-length arguments inside a chunk, at its edges and outside, each followed by reads across that offset
    [("add", 10, b"abcdefgh"), ("remove", 13, 0), ("get", 10, 8), ("get", 12, 3), ("pop", 12, 2), ("get", 10, 2), ("get", 14, 4), ("remove", 14, 0), ("remove", 18, 0),
     ("remove", 16, 0), ("get", 14, 4), ("get", 15, 2), ("pop", 15, 2), ("get", 14, 1), ("get", 17, 1)],
    [("add", 20, b"0123456789"), ("add", 25, b""), ("get", 20, 10), ("pop", 24, 0), ("get", 23, 3), ("get", 24, 0), ("remove", 24, 0), ("get", 20, 10), ("get", 23, 2),
     ("remove", 20, 0), ("remove", 30, 0), ("remove", 19, 0), ("remove", 31, 0), ("get", 20, 10), ("pop", 20, 10), ("remove", 22, 0), ("get", 22, 0), ("pop", 22, 0)],
    [("add", 5, b"abc"), ("add", 9, b"def"), ("remove", 8, 0), ("remove", 6, 0), ("get", 5, 3), ("add", 8, b"X"), ("remove", 8, 0), ("remove", 9, 0), ("get", 5, 7),
     ("remove", 7, 0), ("pop", 6, 4), ("get", 5, 1), ("get", 10, 2), ("remove", 11, 0), ("get", 10, 2)],
    [("add", 2 ** 64 - 4, b"abcdefgh"), ("remove", 2 ** 64, 0), ("get", 2 ** 64 - 4, 8), ("remove", 2 ** 64 - 1, 0), ("pop", 2 ** 64 - 2, 4), ("get", 2 ** 64 - 4, 2)],
    # a block is consumed and an equally long one arrives elsewhere between two looks at the state
    [("add", 0, b"AAAA"), ("get", 0, 4), ("remove", 0, 4), ("add", 10, b"BBBB"), ("add", 100, b"x" * 20), ("get", 100, 20), ("pop", 100, 20), ("add", 120, b"y" * 20),
     ("pop", 120, 20), ("add", 140, b"z" * 20), ("get", 140, 20), ("get", 10, 4)],
    [("add", 10, b"abc"), ("add", 20, b"def"), ("add", 30, b"ghi"), ("pop", 10, 3), ("add", 40, b"jkl"), ("pop", 20, 3), ("add", 50, b"mno"), ("remove", 30, 3), ("add", 13, b"pqr"),
     ("pop", 40, 2), ("add", 60, b"st"), ("get", 42, 1)],
]


def ds_part(ctx):
    ctx.correspondence("dataspans-history-vs-model")
    terms = []
    info = []
    maxops = ctx.n(50, 200)
    n = ctx.n(110, 1200)
    cases = []
    for k, ops in enumerate(EDGE_DS):
        cases.append(({"stream": "dataspans-edge", "index": k}, ops, "dataspans-edge", 1))
        cases.append(({"stream": "dataspans-edge", "index": k}, ops, "dataspans-edge", [2, 3, 5][k % 3]))
    for i in range(n):
        r = ctx.rng("ds", i)
        profile = _profile(r, i)
        nops = r.choice([maxops, maxops, maxops // 2, maxops // 4, 5])
        look = LOOKS[r.randrange(4)]
        ops = gen_ds_history(r, nops, profile)
        cases.append(({"stream": "dataspans", "index": i, "profile": profile, "nops": nops}, ops, "dataspans-" + profile, look))
    for j, path in enumerate(corpus_files("dataspans")):
        rec = json.load(open(path))
        for look in (1, rec.get("look") or [2, 3, 5][j % 3]):
            cases.insert(0, ({"stream": "corpus", "file": os.path.basename(path)}, [_untuple(o) for o in rec["ops"]], "dataspans-corpus", look))
    for case, ops, kind, look in cases:
        res = exec_ds_history(ctx, ops, dict(case, ops=[_show(o) for o in ops]), look=look)
        ctx.case(("ds", look, tuple(ops)) if res["deep"] else None, kind=kind)
        ctx.count("look:dataspans.every-%d" % look)
        for op in ops[:res["done"]]:
            ctx.count("op:dataspans." + op[0])
        if res["h"] is None:
            continue
        terms.append("N.eqb (ds_trace_look %s %s) %s" % (T.nat(look), ds_term(ops), T.N(res["h"])))
        info.append((case, ops, look))
        if len(ctx.samples) < 4 and kind == "dataspans-tiny":
            ctx.sample({"kind": "DataSpans history", "state_queried_every": look, "ops": [_show(o) for o in ops[:10]], "checksum": res["h"]})
    bad = ctx.coq_check(IMPORTS, terms, tag="c37ds", shard=40)
    for ix in bad:
        case, ops, look = info[ix]
        diag = exec_ds_history(ctx, ops, dict(case), look=1, report=False, per_step=True)
        step, model_h = locate(ctx, "ds_trace", ds_term(ops), diag["trace"])
        ctx.mismatch("dataspans-model-vs-impl", "Coq model and real DataSpans disagree (state queried every %d steps); when queried after every step they differ first at step %s (%r)"
                     % (look, step, _show(ops[step]) if step is not None else None),
                     case=dict(case, ops=[_show(o) for o in ops], step=step, look=look), expected={"model_checksum": model_h},
                     observed={"impl_checksum": diag["trace"][step] if step is not None else None}, correspondence="dataspans-history-vs-model")
    ctx.trace(len(terms) - len(bad))


# =============================================================================
# helpers overlap/adjacent, rejected inputs (implementation only + model where typed)
# =============================================================================
def helpers_part(ctx):
    from allmydata.util import spans as M
    ctx.correspondence("overlap-adjacent-vs-model")
    terms = []
    info = []
    n = ctx.n(300, 3000)
    for i in range(n):
        r = ctx.rng("ov", i)
        base = r.choice([0, 0, 0, 2 ** 64 - 8, 2 ** 32 - 8])
        a, b = base + r.randrange(16), base + r.randrange(16)
        la, lb = r.randrange(9), r.randrange(9)
        o = M.overlap(a, la, b, lb)
        adj = M.adjacent(a, la, b, lb)
        inter = set(range(a, a + la)) & set(range(b, b + lb))
        want = (min(inter), len(inter)) if inter else None
        ctx.case(("ov", a, la, b, lb) if inter else None, kind="overlap")
        if o != want:
            ctx.oracle_fail("overlap-wrong", "overlap(%d,%d,%d,%d) = %r, intersection is %r" % (a, la, b, lb, o, want),
                            case={"args": [a, la, b, lb]}, expected=want, observed=o)
        want_adj = (a < b and a + la == b) or (b < a and b + lb == a)
        if bool(adj) != want_adj:
            ctx.oracle_fail("adjacent-wrong", "adjacent(%d,%d,%d,%d) = %r" % (a, la, b, lb, adj), case={"args": [a, la, b, lb]}, expected=want_adj, observed=adj)
        to = "None" if o is None else "(Some %s)" % T.pair(T.N(o[0]), T.N(o[1]))
        terms.append("match overlap %s %s %s %s, %s with Some (x, y), Some (u, v) => (x =? u) && (y =? v) | None, None => true | _, _ => false end && Bool.eqb (adjacent %s %s %s %s) %s"
                     % (T.N(a), T.N(la), T.N(b), T.N(lb), to, T.N(a), T.N(la), T.N(b), T.N(lb), T.boolean(bool(adj))))
        info.append((a, la, b, lb))
    bad = ctx.coq_check(IMPORTS, terms, tag="c37ov")
    for ix in bad:
        ctx.mismatch("overlap-model-vs-impl", "Coq overlap/adjacent and spans.overlap/adjacent differ on %r" % (info[ix],), case={"args": list(info[ix])},
                     correspondence="overlap-adjacent-vs-model")
    ctx.trace(len(terms) - len(bad))
    # inputs the code rejects (outside the N-typed model): negative start
    for (meth, args) in [("add", (-1, 3)), ("remove", (-1, 3)), ("add", (-5, 0)), ("add", (3, -1)), ("remove", (3, -2))]:
        s = M.Spans([(2, 4)])
        ctx.case(None, kind="spans-rejected-input")
        try:
            getattr(s, meth)(*args)
            ctx.oracle_fail("spans-negative-argument-accepted", "Spans.%s%r did not raise AssertionError" % (meth, args), case={"method": meth, "args": list(args)})
        except AssertionError:
            if list(s) != [(2, 4)]:
                ctx.oracle_fail("spans-rejected-op-mutates", "Spans.%s%r raised but changed the state to %r" % (meth, args, list(s)), case={"method": meth, "args": list(args)})
    # Spans(start, length) constructor
    s = M.Spans(3, 4)
    ctx.case(None, kind="spans-constructor")
    if list(s) != [(3, 4)] or s.len() != 4 or s.dump() != "len=4: [3-6]":
        ctx.oracle_fail("spans-constructor-differs", "Spans(3,4) = %s" % s.dump(), case={"args": [3, 4]})


def corpus_files(prefix):
    d = os.path.join(env.CORPUS, ID)
    if not os.path.isdir(d):
        return []
    return sorted(os.path.join(d, f) for f in os.listdir(d) if f.startswith(prefix) and f.endswith(".json"))


def run(ctx):
    helpers_part(ctx)
    spans_part(ctx)
    ds_part(ctx)


def replay(ctx, rec):
    """Re-run the recorded history on the implementation with the recorded `look`
    interval (and show the model's side)."""
    case = rec.get("case") or {}
    ops = case.get("ops")
    stream = case.get("stream", "")
    look = int(case.get("look") or 1)
    out = {"state_queried_every": look}
    if ops is None:
        return {"note": "record carries no history"}
    ops = [_untuple(o) for o in ops]
    is_ds = "dataspans" in stream or (ops and ops[0][0] in ("get", "pop")) or any(isinstance(o[2], (bytes, bytearray)) for o in ops if len(o) > 2)
    keep = {k: v for k, v in case.items() if k not in ("step", "op", "look")}
    if is_ds:
        res = exec_ds_history(ctx, ops, keep, look=look)
        out["model_checksum"] = ctx.coq_eval(IMPORTS, "ds_trace_look %s %s" % (T.nat(look), ds_term(ops)))[-200:]
    else:
        res = exec_spans_history(ctx, ops, keep, look=look)
        out["model_checksum"] = ctx.coq_eval(IMPORTS, "sp_trace_look %s %s" % (T.nat(look), spans_term(ops)))[-200:]
    out["impl_checksum"] = res["h"]
    out["steps_executed"] = res["done"]
    out["agrees_with_reference"] = res["ok"]
    return out
