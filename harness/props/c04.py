"""C04  Random-access and concurrent immutable reads."""
from core import term as T
from props import segq_common as SQ

ID = "C04"
GEN = []
RULE = ("unit cases: the real ImmutableFileNode/DecryptingConsumer/DownloadNode/Segmentation with 1-4 overlapping reads of a 1..7-segment "
        "file, (offset, size) on and around segment and AES-block (16 byte) boundaries, sizes past EOF, offsets at EOF and strictly past it (by one byte, a "
        "segment, far beyond; on fresh and used nodes, alone and among other reads), size None, "
        "scripted consumers (pause / stop inside the n-th write, pause/resume/stop between events), right and wrong segment-size guesses, "
        "segments delivered in every interleaving by harness fetchers handing over real blocks; non-trivial = two or more reads, or a "
        "pause/stop; grid cases: the same on a real grid with 2-4 concurrent reads per node and seeded schedules; literal cases: "
        "LiteralFileNode.read over all (offset, size) of short files")
META = {
    "title": "Random-access and concurrent immutable reads",
    "level_text": ("Theorems in Coq over the node's segment-queue model with n concurrent Segmentation readers: a read started with (offset, "
                   "size) has, at every later moment and under every interleaving of other reads, pauses, resumes, stops, segment completions, "
                   "failures and wrong segment-size guesses, delivered a prefix of file[offset:offset+size] (Python slicing, clipped at EOF, "
                   "None = to EOF) and exactly that slice when it finishes (range_slice); all readers at once keep their own contiguous range "
                   "and no reader's outstanding request is removed by another reader's stop or pause (readers_independent); "
                   "LiteralFileNode.read is the slice (literal_range).  The model is compared state by state with the real classes driven "
                   "event by event; real grids run concurrent reads with scripted consumers against Python slices."),
    "level_note": ("core (partial): the file is handled position-wise (AES-CTR positioning of DecryptingConsumer is C01's ctr_position; the "
                   "direct oracle compares decrypted bytes); segment integrity is C02; fetcher internals are C03.  Consumers that call the "
                   "producer after unregisterProducer are outside the model."),
    "technique": "Coq invariants over event sequences + differential run vs the real classes + grid runs with scripted consumers",
    "design_ref": "8/C04",
    "trusted_base": ["harness fetcher standing in for SegmentFetcher at unit level"],
    "assumptions": ["delivered segments carry the file's bytes (C02)"],
}

CONFIGS = [
    # (size, k, n, max_segment_size)
    (150, 2, 4, 32),
    (100, 3, 5, 48),
    (64, 1, 2, 16),
    (200, 2, 3, 100),
    (75, 2, 4, 128),
    (130, 2, 3, 18),
]


def boundaries(m):
    b = set([0, 1, 15, 16, 17, 31, 32, 33, m.size - 17, m.size - 16, m.size - 1, m.size, m.size + 1, m.size + 20])
    for s in range(0, m.numsegs + 1):
        for d in (-1, 0, 1):
            b.add(s * m.segsize + d)
    return sorted(x for x in b if x >= 0)


def gen_unit_case(r, ci):
    size, k, n, seg = CONFIGS[ci]
    case = {"config": ci, "guess_max": r.choice([128 * 1024, 128 * 1024, seg, max(k, seg // 2), seg * 2 + k, 8]), "seed": r.getrandbits(32),
            "nreaders": r.choice([1, 2, 3, 4, 4]), "steps": r.choice([15, 40, 80]), "pfail": r.choice([0.0, 0.0, 0.0, 0.1])}
    if r.random() < 0.25:
        # a read that starts strictly past the end of the file: by one byte, by a segment, far beyond; on a fresh
        # node (first), among other reads, or after everything else has finished (used node)
        case["past_eof"] = {"beyond": r.choice([1, 1, 2, seg, seg + 1, 10 * size + 3]), "size": r.choice([None, None, 0, 1, 5, size]),
                            "when": r.choice(["first", "among", "after"])}
        if case["past_eof"]["when"] == "first" and r.random() < 0.5:
            case["nreaders"] = 1
            case["steps"] = 4
    return case


def drive_unit(case):
    import random
    size, k, n, seg = CONFIGS[case["config"]]
    m = SQ.material(size, k, n, seg)
    r = random.Random(case["seed"])
    d = SQ.Drive(m, case["guess_max"])
    terms, events = [], []
    try:
        def do(ev):
            t = d.apply(ev)
            if t:
                events.append(ev)
                terms.extend(t)
            return bool(t)
        bs = boundaries(m)

        def rand_read():
            off = r.choice(bs + [r.randrange(m.size + 2)])
            sz = r.choice([None, None, 0, 1, 15, 16, 17, m.segsize - 1, m.segsize, m.segsize + 1, m.size, m.size + 9,
                           max(0, r.choice(bs) - off), r.randrange(1, m.size + 1)])
            script = {}
            for _ in range(r.choice([0, 0, 1, 1, 2])):
                script[r.randrange(0, 4)] = r.choice(["pause", "pause", "stop"])
            return ("read", off, sz, script)
        nread = 0
        pe = case.get("past_eof")
        pe_read = ("read", m.size + pe["beyond"], pe["size"], {}) if pe else None
        if pe and pe["when"] == "first":
            do(pe_read)
            nread += 1
        for step in range(case["steps"]):
            x = r.random()
            if pe and pe["when"] == "among" and step == 3:
                do(pe_read)
            if nread < case["nreaders"] and (nread == 0 or x < 0.2):
                do(rand_read())
                nread += 1
            elif x < 0.5:
                do(("run",))
            elif x < 0.78:
                if d.node._active_segment is not None and d.node.segment_size is None:
                    do(("learn",))
                a = d.node._active_segment
                if a is not None and a.segnum >= m.numsegs:
                    do(("failed", "EBadSegNum"))
                elif r.random() < case["pfail"]:
                    do(r.choice([("blocks", False, "EBadCiphertext", None), ("failed", "ENotEnough")]))
                else:
                    do(("blocks", True, "EOther", sorted(r.sample(sorted(m.blocks), m.k))))
            elif x < 0.84 and d.readers:
                do(("pause", r.randrange(len(d.readers))))
            elif x < 0.95 and d.readers:
                do(("resume", r.randrange(len(d.readers))))
            elif d.readers:
                do(("stop", r.randrange(len(d.readers))))
        def finish():
            # let everything finish: fetches succeed, paused readers are resumed
            guard = 0
            while guard < 800:
                guard += 1
                if d.queue:
                    do(("run",))
                    continue
                a = d.node._active_segment
                if a is not None and a.running:
                    if d.node.segment_size is None:
                        do(("learn",))
                    if a.segnum >= m.numsegs:
                        do(("failed", "EBadSegNum"))
                    else:
                        do(("blocks", True, "EOther", None))
                    continue
                paused = [rd["i"] for rd in d.readers if rd["result"] is None and rd["seg"] is not None and not rd["seg"]._hungry]
                if paused:
                    do(("resume", paused[0]))
                    continue
                break
        finish()
        if pe and pe["when"] == "after":
            do(pe_read)
            finish()
        return m, d.guess, events, terms, d.observe(), d
    finally:
        d.close()


def check_readers(ctx, m, events, d, cj):
    """the property's own rule on what each consumer received"""
    reads = [e for e in events if e[0] == "read"]
    for rd in d.readers:
        ev = reads[rd["i"]]
        off, sz = ev[1], ev[2]
        want = m.plaintext[off:] if sz is None else m.plaintext[off:off + sz]
        got = b"".join(rd["chunks"])
        if not want and (rd["result"] != 1 or got):
            # Python slicing: an empty range (offset at or past EOF, or size 0) is an empty answer, never an error
            where = "past the end of the %d-byte file" % m.size if off > m.size else ("at EOF" if off == m.size else "of size 0")
            ctx.oracle_fail("read-past-eof-not-empty" if off >= m.size else "empty-read-not-empty",
                            "read(%d,%r) %s ended with result code %r and %d bytes; data[%d:%s] is empty and the read must finish with nothing" % (
                                off, sz, where, rd["result"], len(got), off, "" if sz is None else off + sz), case=cj, expected="done, no bytes",
                            observed={"result_code": rd["result"], "bytes": got.hex()})
        elif rd["result"] == 1:
            if got != want:
                ctx.oracle_fail("read-returned-wrong-slice", "read(%d,%r) finished with %d bytes, the slice has %d" % (off, sz, len(got), len(want)),
                                case=cj, expected=want.hex(), observed=got.hex())
        elif rd["result"] is None:
            ctx.oracle_fail("read-never-finished", "read(%d,%r) has not finished although every fetch succeeded and every consumer was resumed" % (off, sz), case=cj)
        elif want[:len(got)] != got:
            ctx.oracle_fail("reader-received-foreign-bytes", "read(%d,%r) ended with result code %r after receiving bytes that are not a prefix of its slice" % (
                off, sz, rd["result"]), case=cj, expected=want.hex(), observed=got.hex())
        elif rd["result"] not in (1, 2) and not any((e[0] == "blocks" and not e[1]) or e[0] == "failed" for e in events):
            ctx.oracle_fail("read-failed-without-cause", "read(%d,%r) failed with result code %r although no fetch failed and the consumer did not stop" % (
                off, sz, rd["result"]), case=cj)


def unit_cases(ctx):
    ctx.correspondence("segment-queue-vs-model")
    n = ctx.n(300, 3000)
    terms, info = [], []
    for i in range(n):
        r = ctx.rng("unit", i)
        case = gen_unit_case(r, i % len(CONFIGS))
        try:
            m, guess, events, evterms, obs, d = drive_unit(case)
        except Exception as e:
            ctx.oracle_fail("node-raised:" + type(e).__name__, "DownloadNode/Segmentation raised %s: %s" % (type(e).__name__, e), case=case)
            continue
        cj = {"config": CONFIGS[case["config"]], "guess_max": case["guess_max"],
              "events": [list(e[:3]) + ([sorted(e[3].items())] if e[0] == "read" else list(e[3:])) for e in events]}
        nreads = len([e for e in events if e[0] == "read"])
        deep = nreads >= 2 or any(e[0] in ("pause", "stop") or (e[0] == "read" and e[3]) for e in events)
        ctx.case((case["config"], case["guess_max"], tuple(map(repr, events))) if deep else None, kind="unit:%d-readers" % nreads)
        check_readers(ctx, m, events, d, cj)
        terms.append(SQ.model_term(m, guess, evterms, obs))
        info.append((cj, obs))
        if i < 2:
            ctx.sample({"case": cj, "results": [rd["result"] for rd in d.readers]})
    bad = ctx.coq_check(SQ.IMPORTS, terms, tag="c04unit")
    for ix in bad[:20]:
        ctx.mismatch("segment-queue-model-differs", "DownloadNode/Segmentation and Model/SegQueue.v disagree on an event sequence",
                     case=info[ix][0], observed=info[ix][1], correspondence="segment-queue-vs-model")
    ctx.trace(len(terms) - len(bad))


# ---------------------------------------------------------------------------
# grid: concurrent reads with scripted consumers on one node
# ---------------------------------------------------------------------------
def gen_grid_case(r):
    k, n = r.choice([(1, 2), (2, 3), (2, 4), (3, 5)])
    seg = r.choice([k * 16, 48, 60, 1024])
    nseg = r.choice([1, 2, 3, 5])
    size = max(56, seg * nseg - r.choice([0, 1, 16, seg // 2]))
    reads = []
    for _ in range(r.choice([1, 2, 3, 4, 4])):
        b = sorted(set([0, 1, 15, 16, 17, seg - 1, seg, seg + 1, 2 * seg, size - 16, size - 1, size, size + 5]))
        off = r.choice([x for x in b if x >= 0] + [r.randrange(size + 1)])
        if r.random() < 0.15:
            off = size + r.choice([1, 1, 2, seg, seg + 3, 10 * size])        # strictly past EOF
        sz = r.choice([None, None, 1, 16, 17, seg, seg + 1, size, size + 7, r.randrange(1, size + 1)])
        script = {}
        for _ in range(r.choice([0, 0, 1, 2])):
            script[str(r.randrange(0, 4))] = r.choice(["pause", "pause", "stop"])
        reads.append({"offset": off, "size": sz, "script": script, "resume_after": r.choice([1, 2, 5])})
    return {"k": k, "n": n, "servers": r.choice([n, n + 2]), "segsize": seg, "size": size, "reads": reads, "seed": r.getrandbits(30),
            "fifo": r.choice(["server", "none"]), "threads": r.random() < 0.15, "second_round": r.random() < 0.5}


def run_c04_grid_case(case):
    from zope.interface import implementer
    from twisted.internet.interfaces import IConsumer
    from twisted.internet import defer
    from foolscap.api import eventually
    from core import grid as G
    data = bytes((5 * i + case["size"] + (i >> 3)) & 0xFF for i in range(case["size"]))
    results = []
    with G.Grid(num_servers=case["servers"], k=case["k"], n=case["n"], happy=1, max_segment_size=case["segsize"], seed=case["seed"],
                fifo=case["fifo"], timeout=20, threads=case.get("threads", False)) as g:
        cap = g.run(g.upload(data, convergence=b"c04"))
        node = g.node(cap)

        def start(rd):
            rec = {"chunks": [], "result": None, "producer": None}

            @implementer(IConsumer)
            class Consumer(object):
                def registerProducer(self, p, streaming):
                    rec["producer"] = p

                def unregisterProducer(self):
                    rec["producer"] = None

                def write(self, chunk):
                    ix = len(rec["chunks"])
                    rec["chunks"].append(chunk)
                    what = rd["script"].get(str(ix))
                    if what == "pause":
                        rec["producer"].pauseProducing()
                        # resume a few turns later
                        state = {"n": rd["resume_after"]}

                        def later():
                            state["n"] -= 1
                            if rec["producer"] is None:
                                return
                            if state["n"] <= 0:
                                rec["producer"].resumeProducing()
                            else:
                                eventually(later)
                        eventually(later)
                    elif what == "stop":
                        rec["producer"].stopProducing()
            d = node.read(Consumer(), rd["offset"], rd["size"])

            def done(res):
                from twisted.python.failure import Failure
                rec["result"] = "error:" + res.value.__class__.__name__ if isinstance(res, Failure) else "done"
                return None
            d.addBoth(done)
            return rec, d
        rounds = [case["reads"]] + ([list(reversed(case["reads"]))] if case.get("second_round") else [])
        for reads in rounds:
            recs = []
            ds = []
            for rd in reads:
                rec, d = start(rd)
                recs.append(rec)
                ds.append(d)
            out = g.run(defer.DeferredList(ds), outcome=True)
            results.append((reads, recs, out.status))
    return data, results


def grid_cases(ctx):
    ctx.correspondence("grid-concurrent-reads-vs-slices")
    n = ctx.n(70, 700)
    for i in range(n):
        r = ctx.rng("grid", i)
        case = gen_grid_case(r)
        data, results = run_c04_grid_case(case)
        nreads = len(case["reads"])
        ctx.case((case["seed"],) if nreads >= 2 or any(rd["script"] for rd in case["reads"]) else None, kind="grid:%d-readers" % nreads)
        for reads, recs, status in results:
            if status in ("hung", "timeout"):
                ctx.oracle_fail("concurrent-reads-never-finished", "a group of %d concurrent reads on one node is %s; finished: %r" % (
                    len(reads), status, [rec["result"] for rec in recs]), case=case)
                continue
            for rd, rec in zip(reads, recs):
                off, sz = rd["offset"], rd["size"]
                want = data[off:] if sz is None else data[off:off + sz]
                got = b"".join(rec["chunks"])
                stops = [int(ix) for ix, w in rd["script"].items() if w == "stop"]
                if not want and (rec["result"] != "done" or got):
                    ctx.oracle_fail("read-past-eof-not-empty" if off >= len(data) else "empty-read-not-empty",
                                    "read(%d,%r) of the %d-byte file ended with %r and %d bytes; data[%d:%s] is empty and the read must finish with nothing" % (
                                        off, sz, len(data), rec["result"], len(got), off, "" if sz is None else off + sz), case=case, expected="done, no bytes",
                                    observed={"result": rec["result"], "bytes": got.hex()})
                elif rec["result"] == "done":
                    if got != want:
                        ctx.oracle_fail("read-returned-wrong-slice", "read(%d,%r) finished with %d bytes, the slice has %d" % (off, sz, len(got), len(want)), case=case,
                                        expected=want.hex()[:300], observed=got.hex()[:300])
                elif rec["result"] == "error:DownloadStopped" and stops:
                    if want[:len(got)] != got:
                        ctx.oracle_fail("reader-received-foreign-bytes", "stopped read(%d,%r) received bytes that are not a prefix of its slice" % (off, sz), case=case,
                                        expected=want.hex()[:300], observed=got.hex()[:300])
                else:
                    ctx.oracle_fail("read-failed-without-cause", "read(%d,%r) ended with %r on a healthy grid" % (off, sz, rec["result"]), case=case)
        if i < 3:
            ctx.sample({"case": case, "results": [[rec["result"] for rec in recs] for reads, recs, st in results]})
        ctx.trace(1)


# ---------------------------------------------------------------------------
# literal files
# ---------------------------------------------------------------------------
def literal_cases(ctx):
    ctx.correspondence("literal-read-vs-model")
    from allmydata.immutable.literal import LiteralFileNode
    from allmydata.uri import LiteralFileURI
    from allmydata.util.consumer import MemoryConsumer
    terms, info = [], []
    n = ctx.n(400, 4000)
    for i in range(n):
        r = ctx.rng("lit", i)
        ln = r.choice([0, 1, 2, 15, 16, 17, 54, 55, r.randrange(0, 56)])
        data = bytes(r.getrandbits(8) for _ in range(ln))
        off = r.choice([0, 0, 1, max(0, ln - 1), ln, ln + 1, ln + 10, r.randrange(0, ln + 3)])
        sz = r.choice([None, None, 0, 1, 16, max(0, ln - off), ln, ln + 5, r.randrange(0, ln + 3)])
        node = LiteralFileNode(LiteralFileURI(data))
        c = MemoryConsumer()
        box = []
        node.read(c, off, sz).addBoth(box.append)
        got = b"".join(c.chunks)
        want = data[off:] if sz is None else data[off:off + sz]
        ctx.case((data, off, sz) if 0 < off < ln else None, kind="literal")
        if not box or box[0] is not c:
            ctx.oracle_fail("literal-read-did-not-finish", "LiteralFileNode.read(%d,%r) of %d bytes did not fire with the consumer" % (off, sz, ln),
                            case={"data": data.hex(), "offset": off, "size": sz}, observed=repr(box))
        if got != want:
            ctx.oracle_fail("literal-read-wrong-slice", "LiteralFileNode.read(%d,%r) of %d bytes returned %d bytes, the slice has %d" % (off, sz, ln, len(got), len(want)),
                            case={"data": data.hex(), "offset": off, "size": sz}, expected=want.hex(), observed=got.hex())
        terms.append("ln_eqb (literal_read %s %s %s) %s" % (T.bytes_(data), T.N(off), T.opt(T.N(sz) if sz is not None else None), T.bytes_(got)))
        info.append((data, off, sz, got))
    bad = ctx.coq_check(SQ.IMPORTS, terms, tag="c04lit")
    for ix in bad[:10]:
        data, off, sz, got = info[ix]
        ctx.mismatch("literal-model-differs", "LiteralFileNode.read and literal_read disagree", case={"data": data.hex(), "offset": off, "size": sz},
                     observed=got.hex(), correspondence="literal-read-vs-model")
    ctx.trace(len(terms) - len(bad))


def run(ctx):
    unit_cases(ctx)
    literal_cases(ctx)
    grid_cases(ctx)


def replay(ctx, rec):
    case = rec.get("case") or {}
    if "reads" in case and "servers" in case:
        data, results = run_c04_grid_case(case)
        return [[(rd["offset"], rd["size"], rec2["result"], len(b"".join(rec2["chunks"]))) for rd, rec2 in zip(reads, recs)] for reads, recs, st in results]
    return {"note": "unit/literal case: the record holds the input; re-run the check with the recorded seed"}
