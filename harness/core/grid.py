"""In-process tahoe grid for property drivers: real client(s) + real storage
servers (allmydata.test.no_network), a seeded scheduler for remote calls with
data-driven fault plans, and share-level helpers.  No trial, no reactor.run():
the grid pumps the global reactor itself (`reactor.iterate(0)`), so it can be
used any number of times in one process (about 25 ms per grid, 10 servers).

API SUMMARY
===========
    from core import grid as G

Synchronous style (recommended in drivers)
    with G.Grid(num_clients=1, num_servers=10, k=3, n=10, happy=1,
                max_segment_size=128*1024, seed=0, faults=None,
                fifo="server", timeout=60, threads=False, crawlers=False,
                time_warp=120.0, idle_grace=0.0, basedir=None, keep=False) as g:
        cap  = g.run(g.upload(b"...", convergence=b"secret"))   # bytes (cap string)
        data = g.run(g.download(cap))                           # bytes
        part = g.run(g.download_range(cap, offset, size))
        out  = g.run(g.download(cap), outcome=True)             # never raises: Outcome
`g.run(x, timeout=None, outcome=False)`: x is a Deferred, a coroutine, or a
callable returning either (generator functions are wrapped in inlineCallbacks).
Returns the result or raises: the operation's own exception, `GridHung`
(nothing left to run and the Deferred has not fired) or `GridTimeout` (wall).
With outcome=True returns `Outcome(status, value, error, failure, hung_info)`,
status in {"ok","error","hung","timeout"}; `error` is the exception class name.

One-shot style
    result = G.run_grid(fn, num_clients=1, num_servers=10, k=3, n=10, happy=1,
                        max_segment_size=..., seed=..., basedir=..., faults=...,
                        timeout=60, outcome=False, **grid_kwargs)
    `fn(g)` may be a plain function, a generator function (inlineCallbacks
    style), an `async def`, or return a Deferred.

Subprocess style (isolation / hard timeout; ~1.3 s start-up per job)
    G.run_job_subprocess("props.cnn:job_fn", job_dict, timeout=120) -> JSON value
    runs `job_fn(job_dict)` in a fresh /venv/bin/python with the harness
    environment; bytes must be hex-encoded by the caller (JSON in, JSON out).

Scheduler (g.sched, class Scheduler)
    Every LocalWrapper.callRemote issued on this grid's connections is parked
    in a pool.  When the client side has nothing left to do (foolscap eventual
    queue empty, no due timers) ONE parked call is chosen by
    random.Random(seed), executed on the server and its answer delivered.
    fifo="server": calls on one (client, server) connection are released in
    issue order (what a foolscap connection guarantees); fifo="none": any
    order; fifo="global": strict issue order (the FIFO loopback of trial).
    g.sched.reseed(seed); g.sched.trace -> list of released calls
    [(seq, client, server, method, shnum, action)]; g.sched.issued.
    Fault plan = list of dicts (pure data, put it into replays):
        {"server": i|None, "client": c|None, "method": "read"|None,
         "shnum": s|None, "nth": 0, "count": 1|None(=forever), "action": A, ...}
    applies to the nth.. (nth+count-1)th issued call matching the selectors.
    Actions:  "drop"            request lost: never executed, never answered
              "drop_response"   executed, answer lost
              "error"           not executed, answered with RemoteException(IntentionalError)
              "error_after"     executed, answered with an error
              "delay"           executed in turn, answer withheld until nothing
                                else can run (delay-until-others-done); with
                                "until": "timers" the answer is withheld even
                                longer: until every pending short timer has been
                                fired too (a slow, not hung, server: it answers
                                after the client's OVERDUE/timeout timers)
              "corrupt"         executed, answer altered: "how": "flip" (xor
                                byte at "offset" with "xor", default 0/1),
                                "truncate" ("length"), "empty", "drop_share"
                                (remove "shnum"/first key from a dict answer),
                                "value" (replace by plan["value"], hex if str)
    g.set_faults(plan) replaces the plan (match counters restart).
    Termination: nothing parked, nothing delayed, no timer to warp and the
    Deferred unfired => "hung" (GridHung / Outcome.status == "hung", with
    .hung_info listing dropped calls).  Timers: pending reactor.callLater
    calls with an original delay <= time_warp seconds (share-finder OVERDUE
    timer, mutable retry back-off) are fired early, in time order, when
    nothing else can run; storage crawlers are stopped unless crawlers=True.

Grid helpers (indices are the no_network server numbers 0..num_servers-1)
    g.client(i=0), g.clients; g.set_encoding(k=, n=, happy=, max_segment_size=, client=0)
    g.upload(data, convergence=b"" | None(random key), client=0) -> Deferred[cap bytes]
    g.upload_results(uploadable_or_bytes, convergence=..., client=0) -> Deferred[UploadResults]
    g.node(cap, client=0); g.download(cap, client=0); g.download_range(cap, offset, size, client=0)
    g.create_mutable(data=b"", version="sdmf"|"mdmf", client=0, keypair=None) -> Deferred[MutableFileNode]
    g.mutable_read(node_or_cap, client=0) -> Deferred[bytes]; g.mutable_overwrite(node_or_cap, data, client=0)
    g.keypair(i) -> cached RSA keypair (process-wide cache, speeds mutable creation)
    g.server(i) -> StorageServer; g.server_ids -> {i: serverid}; g.server_index(serverid)
    g.find_shares(cap_or_si) -> [Share(shnum, server, path)] sorted; g.share_map(cap_or_si) -> {server: [shnums]}
    g.read_share(sh) / g.write_share(sh, bytes) / g.delete_share(sh) / g.delete_shares(cap, shnums=None, servers=None)
    g.corrupt_share(sh, offset=None, xor=1, fn=None, rng=None)   (offset relative to file start; None = seeded random)
    g.share_data_offset(sh) -> offset of the share payload inside the container file (immutable 12, mutable 468)
    g.set_readonly(i, on=True); g.set_full(i, on=True); g.break_server(i, count=True); g.unbreak_server(i)
    g.hang_server(i) / g.unhang_server(i); g.remove_server(i) -> StorageServer; g.add_server(i, readonly=False)
    g.storage_broker_order(cap_or_si) -> server indices in permuted order
    g.logged_errors -> twisted log.err events seen while the grid existed
    g.close()   (also at context exit: stops services, removes scratch dir)
    Grids may be nested, but schedules are reproducible only with one live grid at a time.

Self-test:  /venv/bin/python harness/core/grid.py --selftest
"""
import collections
import inspect
import json
import os
import random
import shutil
import subprocess
import sys
import time

if __name__ == "__main__":
    sys.path.insert(0, os.path.dirname(os.path.dirname(os.path.abspath(__file__))))
    from core import env as _env
    _env.ensure_interpreter()

from core import env  # noqa: E402

_imported = {}


def _tahoe():
    """Import the tahoe test machinery lazily (allmydata.test opens eliot.log in
    the cwd at import time: do that inside the scratch directory and detach the
    destination, the log is only a cost)."""
    if _imported:
        return _imported
    cwd = os.getcwd()
    os.chdir(env.subdir("grid-import"))
    try:
        import eliot
        before = list(eliot._output.Logger._destinations._destinations)
        import allmydata.test  # noqa: F401
        from allmydata.test import no_network
        for dest in list(eliot._output.Logger._destinations._destinations):
            if dest not in before:
                try:
                    eliot.remove_destination(dest)
                except ValueError:
                    pass
    finally:
        os.chdir(cwd)
    from twisted.internet import reactor, defer
    from twisted.python import failure, log
    from twisted.application import service
    from foolscap import eventual
    from foolscap.api import RemoteException
    _imported.update(no_network=no_network, reactor=reactor, defer=defer, failure=failure, log=log,
                     service=service, eventual=eventual, RemoteException=RemoteException)
    _install_patch()
    return _imported


class GridHung(Exception):
    """Nothing left to run and the awaited Deferred has not fired."""

    def __init__(self, info):
        Exception.__init__(self, "hung: %s" % (info,))
        self.info = info


class GridTimeout(Exception):
    """Per-run wall-clock limit exceeded."""


Outcome = collections.namedtuple("Outcome", "status value error failure hung_info")
Share = collections.namedtuple("Share", "shnum server path")

ACTIONS = ("drop", "drop_response", "error", "error_after", "delay", "corrupt")


# ---------------------------------------------------------------------------
# scheduler
# ---------------------------------------------------------------------------
class _Call(object):
    __slots__ = ("seq", "client", "server", "method", "shnum", "shnums", "gate", "out", "action", "plan",
                 "result", "have_result", "state")

    def describe(self):
        return (self.seq, self.client, self.server, self.method, self.shnum, self.action or "ok")


class Scheduler(object):
    def __init__(self, seed=0, faults=None, fifo="server"):
        assert fifo in ("server", "none", "global")
        self.fifo = fifo
        self.reseed(seed)
        self.parked = []        # issued, not yet released
        self.delayed = []       # executed, answer withheld
        self.lost = []          # dropped requests/answers (for hung reports)
        self.trace = []
        self.issued = 0
        self.set_faults(faults)

    def reseed(self, seed):
        self.seed = seed
        self.rng = random.Random(seed)

    def set_faults(self, faults):
        self.faults = [dict(f) for f in (faults or [])]
        for f in self.faults:
            if f.get("action") not in ACTIONS:
                raise ValueError("unknown fault action %r" % (f.get("action"),))
            f["_seen"] = 0

    # -- issue ---------------------------------------------------------------
    def _match(self, call):
        for f in self.faults:
            if f.get("server") is not None and f["server"] != call.server:
                continue
            if f.get("client") is not None and f["client"] != call.client:
                continue
            if f.get("method") is not None and f["method"] != call.method:
                continue
            if f.get("shnum") is not None:
                if call.shnums is None:
                    if call.shnum is not None and call.shnum != f["shnum"]:
                        continue
                    if call.shnum is None and call.method not in ("slot_readv", "get_buckets"):
                        continue
                elif f["shnum"] not in call.shnums:
                    continue
            ix = f["_seen"]
            f["_seen"] += 1
            nth = f.get("nth", 0)
            count = f.get("count", 1)
            if ix >= nth and (count is None or ix < nth + count):
                return f
        return None

    def issue(self, wrapper, methname, args, kwargs, orig):
        T = _tahoe()
        call = _Call()
        call.seq = self.issued
        self.issued += 1
        call.client = getattr(wrapper, "_verif_client", None)
        call.server = getattr(wrapper, "_verif_server", None)
        call.method = methname
        call.shnum = getattr(wrapper, "_verif_shnum", None)
        call.shnums = None
        try:
            if methname == "slot_readv" and len(args) >= 2 and args[1]:
                call.shnums = set(args[1])
            elif methname == "slot_testv_and_readv_and_writev" and len(args) >= 3:
                call.shnums = set(args[2].keys())
            elif methname == "allocate_buckets" and len(args) >= 4:
                call.shnums = set(args[3])
        except Exception:
            call.shnums = None
        call.plan = self._match(call)
        call.action = call.plan["action"] if call.plan else None
        call.have_result = False
        call.result = None
        call.state = "parked"
        call.gate = T["defer"].Deferred()
        call.out = T["defer"].Deferred()
        saved = wrapper._fireEventually
        wrapper._fireEventually = lambda: call.gate
        try:
            d = orig(wrapper, methname, *args, **kwargs)
        finally:
            wrapper._fireEventually = saved

        def _got(res):
            # tag freshly wrapped bucket references with their share number
            try:
                if methname == "allocate_buckets" and isinstance(res, tuple):
                    for shnum, w in res[1].items():
                        w._verif_shnum = shnum
                elif methname == "get_buckets" and isinstance(res, dict):
                    for shnum, w in res.items():
                        w._verif_shnum = shnum
            except Exception:
                pass
            call.result = res
            call.have_result = True
            return None
        d.addBoth(_got)
        self.parked.append(call)
        return call.out

    # -- release -------------------------------------------------------------
    def _eligible(self):
        if self.fifo == "none":
            return list(self.parked)
        if self.fifo == "global":
            return self.parked[:1]
        seen = set()
        out = []
        for c in self.parked:
            key = (c.client, c.server)
            if key not in seen:
                seen.add(key)
                out.append(c)
        return out

    def release_one(self):
        """Release one parked call chosen by the PRNG.  False if none parked."""
        el = self._eligible()
        if not el:
            return False
        call = el[0] if len(el) == 1 else el[self.rng.randrange(len(el))]
        self.parked.remove(call)
        self.trace.append(call.describe())
        T = _tahoe()
        act = call.action
        if act == "drop":
            call.state = "dropped"
            self.lost.append(call)
            return True
        if act == "error":
            call.state = "done"
            f = T["failure"].Failure(T["RemoteException"](T["failure"].Failure(T["no_network"].IntentionalError("fault plan: error"))))
            call.out.errback(f)
            return True
        call.state = "executing"
        call.gate.callback(None)          # runs the remote method synchronously (unless server hung)
        if not call.have_result:
            # server wrapper is hung (hung_until): answer arrives when unhung
            call.state = "server-hung"
            self.lost.append(call)
            d = call.gate                 # result still flows through _got; poll in deliver_late()
            del d
            return True
        self._answer(call)
        return True

    def _answer(self, call):
        T = _tahoe()
        act = call.action
        if act == "drop_response":
            call.state = "answer-dropped"
            self.lost.append(call)
            return
        if act == "delay" and call.state != "delayed-release":
            call.state = "delayed"
            self.delayed.append(call)
            return
        res = call.result
        if act == "error_after":
            res = T["failure"].Failure(T["RemoteException"](T["failure"].Failure(T["no_network"].IntentionalError("fault plan: error_after"))))
        elif act == "corrupt" and not isinstance(res, T["failure"].Failure):
            res = corrupt_value(res, call.plan)
        call.state = "done"
        call.out.callback(res)            # a Failure here takes the errback path

    def deliver_late(self):
        """Answers of calls that went through a hung server wrapper and have
        since completed; then one delayed answer.  False if nothing to do."""
        for c in list(self.lost):
            if c.state == "server-hung" and c.have_result:
                self.lost.remove(c)
                self._answer(c)
                return True
        return False

    def deliver_delayed(self, after_timers=False):
        """One withheld answer.  Plans with "until": "timers" (a SLOW server: the
        answer arrives only after every pending short timer, e.g. the share
        finder's OVERDUE timer, has fired) are delivered only when
        after_timers is true."""
        pick = None
        for c in self.delayed:
            if after_timers or (c.plan or {}).get("until") != "timers":
                pick = c
                break
        if pick is None:
            return False
        self.delayed.remove(pick)
        call = pick
        call.state = "delayed-release"
        self.trace.append((call.seq, call.client, call.server, call.method, call.shnum, "deliver-delayed"))
        self._answer(call)
        return True

    def pending_info(self):
        return {"lost": [c.describe() + (c.state,) for c in self.lost],
                "parked": [c.describe() for c in self.parked],
                "delayed": [c.describe() for c in self.delayed]}


def corrupt_value(res, plan):
    how = plan.get("how", "flip")
    if how == "value":
        v = plan.get("value")
        return bytes.fromhex(v) if isinstance(v, str) else v
    if how == "drop_share" and isinstance(res, dict):
        res = dict(res)
        key = plan.get("drop", plan.get("shnum"))
        if key is None or key not in res:
            key = sorted(res)[0] if res else None
        if key is not None:
            del res[key]
        return res
    if isinstance(res, (bytes, bytearray)):
        b = bytearray(res)
        if how == "flip" and b:
            off = plan.get("offset", 0) % len(b)
            b[off] ^= (plan.get("xor", 1) & 0xFF) or 1
        elif how == "truncate":
            b = b[:plan.get("length", max(0, len(b) - 1))]
        elif how == "empty":
            b = bytearray()
        return bytes(b)
    if isinstance(res, list):
        return [corrupt_value(x, plan) for x in res]
    if isinstance(res, tuple):
        return tuple(corrupt_value(x, plan) for x in res)
    if isinstance(res, dict):
        return {k: corrupt_value(v, plan) for k, v in res.items()}
    return res


_patched = False
_hash_counter = [0]

# Classes whose instances the upload/download/mutable code keeps in sets or as
# dict keys with the default identity hash: iteration order would then depend
# on memory addresses.  They get a serial-number hash (assigned on first use,
# restarted for every grid) so that one seed gives one schedule in any process.
_DET_HASH_CLASSES = [
    "allmydata.test.no_network:NoNetworkServer", "allmydata.test.no_network:LocalWrapper",
    "allmydata.immutable.upload:ServerTracker",
    "allmydata.immutable.downloader.share:Share", "allmydata.immutable.downloader.share:CommonShare",
    "allmydata.immutable.downloader.finder:RequestToken", "allmydata.immutable.downloader.finder:ShareFinder",
    "allmydata.immutable.downloader.fetcher:SegmentFetcher",
    "allmydata.immutable.downloader.node:DownloadNode", "allmydata.immutable.downloader.node:Cancel",
    "allmydata.immutable.downloader.segmentation:Segmentation",
    "allmydata.util.observer:OneShotObserverList", "allmydata.util.observer:ObserverList",
    "allmydata.util.observer:EventStreamObserver",
    "allmydata.mutable.layout:SDMFSlotWriteProxy", "allmydata.mutable.layout:MDMFSlotWriteProxy",
    "allmydata.mutable.layout:MDMFSlotReadProxy",
    "allmydata.mutable.filenode:MutableFileNode", "allmydata.mutable.filenode:MutableFileVersion",
    "allmydata.immutable.layout:WriteBucketProxy", "allmydata.immutable.layout:WriteBucketProxy_v2",
    "allmydata.immutable.layout:ReadBucketProxy",
    "allmydata.immutable.checker:ValidatedReadBucketProxy",
    "twisted.internet.defer:Deferred", "twisted.python.failure:Failure",
]


def _det_hash(self):
    try:
        return self.__dict__["_verif_h"]
    except KeyError:
        _hash_counter[0] += 1
        h = self.__dict__["_verif_h"] = _hash_counter[0]
        return h
    except AttributeError:
        return id(self) >> 4


def _install_det_hashes():
    import importlib
    for spec in _DET_HASH_CLASSES:
        modname, cname = spec.split(":")
        try:
            cls = getattr(importlib.import_module(modname), cname)
        except (ImportError, AttributeError):
            continue
        if cls.__hash__ is object.__hash__ and "__eq__" not in cls.__dict__:
            try:
                cls.__hash__ = _det_hash
            except TypeError:
                pass


def _install_patch():
    """LocalWrapper.callRemote/_wrap consult the wrapper's scheduler when it has
    one (wrappers of grids built by this module); other wrappers are untouched."""
    global _patched
    if _patched:
        return
    _patched = True
    LW = _imported["no_network"].LocalWrapper
    orig_call = LW.callRemote
    orig_wrap = LW._wrap

    def callRemote(self, methname, *args, **kwargs):
        sched = getattr(self, "_verif_sched", None)
        if sched is None:
            return orig_call(self, methname, *args, **kwargs)
        return sched.issue(self, methname, args, kwargs, orig_call)

    def _wrap(self, value):
        w = orig_wrap(self, value)
        for a in ("_verif_sched", "_verif_server", "_verif_client"):
            if hasattr(self, a):
                setattr(w, a, getattr(self, a))
        return w

    LW.callRemote = callRemote
    LW._wrap = _wrap
    _install_det_hashes()


# ---------------------------------------------------------------------------
# grid
# ---------------------------------------------------------------------------
_grid_counter = [0]
_live = set()
_keypairs = {}
_fixture = []


def _fixture_keys():
    if not _fixture:
        path = os.path.join(os.path.dirname(os.path.abspath(__file__)), "rsa_test_keys.json")
        try:
            with open(path) as f:
                _fixture.append(json.load(f)["keys"])
        except (OSError, ValueError, KeyError):
            _fixture.append([])
    return _fixture[0]


class Grid(object):
    def __init__(self, num_clients=1, num_servers=10, k=3, n=10, happy=1, max_segment_size=None,
                 seed=0, faults=None, fifo="server", timeout=60.0, threads=False, crawlers=False,
                 time_warp=120.0, idle_grace=0.0, basedir=None, keep=False):
        T = _tahoe()
        self.T = T
        self.timeout = timeout
        self.time_warp = time_warp
        self.idle_grace = idle_grace
        self.keep = keep
        self.closed = False
        self.logged_errors = []
        self._cleanups = []
        self.warped = []
        self._warps = 0
        _grid_counter[0] += 1
        if not _live:
            _hash_counter[0] = 0
        _live.add(id(self))
        if basedir is None:
            basedir = os.path.join(env.subdir("grids"), "g%d-%d" % (os.getpid(), _grid_counter[0]))
        assert not os.path.realpath(basedir).startswith(os.path.realpath(env.REPO) + os.sep), "no scratch in the repo"
        self.basedir = basedir
        os.makedirs(basedir, exist_ok=True)
        random.seed(seed)
        from allmydata.util import cputhreadpool
        self._threads = threads
        self._old_disabled = cputhreadpool._DISABLED
        cputhreadpool._DISABLED = not threads
        self._observer = self._observe
        T["log"].addObserver(self._observer)

        self.sched = Scheduler(seed, faults, fifo)
        nn = T["no_network"]
        self.s = T["service"].MultiService()
        self.s.startService()
        from allmydata.test.common import SameProcessStreamEndpointAssigner
        pa = SameProcessStreamEndpointAssigner()
        pa.setUp()
        self._cleanups.append(pa.tearDown)
        self.g = nn.NoNetworkGrid(basedir, num_clients=num_clients, num_servers=num_servers,
                                  client_config_hooks={}, port_assigner=pa)
        self.g.setServiceParent(self.s)
        self.g._check_clients()
        self.clients = self.g.clients
        self._client_servers = {}
        for i in list(self.g.servers_by_number):
            self._adopt_server(i)
        self._rebuild()
        if not crawlers:
            for ss in self.g.servers_by_number.values():
                self._stop_crawlers(ss)
        for ci in range(len(self.clients)):
            self.set_encoding(k=k, n=n, happy=happy, max_segment_size=max_segment_size, client=ci)
        self.pump()

    # -- context manager -------------------------------------------------------
    def __enter__(self):
        return self

    def __exit__(self, *a):
        self.close()
        return False

    def _observe(self, ev):
        if ev.get("isError"):
            f = ev.get("failure")
            self.logged_errors.append(("%s: %s" % (f.type.__name__, f.getErrorMessage())) if f is not None else str(ev.get("message"))[:300])

    def _stop_crawlers(self, ss):
        for name in ("bucket_counter", "lease_checker"):
            c = getattr(ss, name, None)
            if c is not None and c.running:
                try:
                    c.disownServiceParent()
                except Exception:
                    try:
                        c.stopService()
                    except Exception:
                        pass

    # -- connections: one LocalWrapper per (client, server) ---------------------
    def _adopt_server(self, i):
        nn = self.T["no_network"]
        ss = self.g.servers_by_number[i]
        sid = ss.my_nodeid
        w0 = self.g.wrappers_by_id[sid]
        w0._verif_sched = self.sched
        w0._verif_server = i
        w0._verif_client = 0
        per = {0: self.g.proxies_by_id[sid]}
        for ci in range(1, len(self.g.clients)):
            w = nn.LocalWrapper(w0.original)
            w.version = w0.version
            w._verif_sched = self.sched
            w._verif_server = i
            w._verif_client = ci
            per[ci] = nn.NoNetworkServer(sid, w)
        self._client_servers[i] = per

    def _rebuild(self):
        self.g.rebuild_serverlist()
        for ci, c in enumerate(self.g.clients):
            c._servers = frozenset(per[ci] for i, per in self._client_servers.items() if i in self.g.servers_by_number)

    def _wrappers(self, i):
        return [p.rref for p in self._client_servers[i].values()]

    # -- event loop ---------------------------------------------------------------
    def _local_work(self):
        T = self.T
        q = T["eventual"]._theSimpleQueue
        if q._events or q._timer is not None:
            return True
        r = T["reactor"]
        if getattr(r, "threadCallQueue", None):
            return True
        now = r.seconds()
        for dc in r.getDelayedCalls():
            if dc.getTime() <= now:
                return True
        return False

    def pump(self, limit=100000):
        """Run the client side until it is quiescent (eventual queue empty, no
        due timer)."""
        r = self.T["reactor"]
        n = 0
        r.iterate(0)
        while self._local_work():
            r.iterate(0)
            n += 1
            if n > limit:
                raise GridTimeout("client side did not become quiescent after %d reactor turns" % limit)

    def _threads_busy(self):
        if not self._threads:
            return False
        from allmydata.util import cputhreadpool
        p = cputhreadpool._CPU_THREAD_POOL
        try:
            return bool(p.working) or p.q.qsize() > 0
        except Exception:
            return False

    def _warp(self):
        """Fire the earliest short timer early (virtual passage of time).
        Housekeeping timers of twisted.web (HTTPFactory log clock) and anything
        longer than `time_warp` seconds are left alone."""
        if not self.time_warp:
            return False
        from twisted.internet.task import LoopingCall
        r = self.T["reactor"]
        best = None
        for dc in r.getDelayedCalls():
            delay = getattr(dc, "_verif_delay", None)
            if delay is None:
                delay = dc.getTime() - r.seconds()
                dc._verif_delay = delay
            if getattr(dc, "_verif_bg", False):
                continue
            mod = getattr(dc.func, "__module__", "") or ""
            if mod.startswith("twisted.web") or mod.startswith("allmydata.storage.crawler") or isinstance(dc.func, LoopingCall):
                dc._verif_bg = True
                continue
            if delay <= self.time_warp and (best is None or dc.getTime() < best.getTime()):
                best = dc
        if best is None:
            return False
        self._warps += 1
        if self._warps > 10000:
            return False
        if len(self.warped) < 200:
            self.warped.append(getattr(best.func, "__qualname__", repr(best.func)))
        best.reset(0)
        return True

    def _to_deferred(self, x):
        defer = self.T["defer"]
        if isinstance(x, defer.Deferred):
            return x
        if inspect.iscoroutine(x):
            return defer.ensureDeferred(x)
        if inspect.isgenerator(x):
            gen = x
            return defer.inlineCallbacks(lambda: (yield from gen))()
        if callable(x):
            if inspect.isgeneratorfunction(x):
                x = defer.inlineCallbacks(x)
            d = defer.maybeDeferred(x)
            d.addCallback(lambda r: self._to_deferred(r) if (inspect.iscoroutine(r) or inspect.isgenerator(r)) else r)
            return d
        return defer.succeed(x)

    def run(self, x, timeout=None, outcome=False):
        """Drive a Deferred/coroutine/callable to completion under the scheduler."""
        d = self._to_deferred(x)
        box = []
        d.addBoth(box.append)
        limit = self.timeout if timeout is None else timeout
        self._warps = 0
        for dc in self.T["reactor"].getDelayedCalls():
            if not hasattr(dc, "_verif_delay"):
                dc._verif_bg = True      # timers that predate this run are housekeeping
        t_end = time.monotonic() + limit
        status = None
        hung_info = None
        idle_since = None
        while True:
            try:
                self.pump()
            except GridTimeout:
                status = "timeout"
                break
            if box:
                break
            if time.monotonic() > t_end:
                status = "timeout"
                break
            if self.sched.release_one():
                idle_since = None
                continue
            if self.sched.deliver_late():
                continue
            if self._threads_busy():
                time.sleep(0.0005)
                continue
            if self.sched.deliver_delayed():
                continue
            if self._warp():
                continue
            if self.sched.deliver_delayed(after_timers=True):
                continue
            if self.idle_grace:
                if idle_since is None:
                    idle_since = time.monotonic()
                if time.monotonic() - idle_since < self.idle_grace:
                    self.T["reactor"].iterate(0.005)
                    continue
            status = "hung"
            hung_info = self.sched.pending_info()
            break
        failure = self.T["failure"]
        if box:
            res = box[0]
            if isinstance(res, failure.Failure):
                out = Outcome("error", None, _error_name(res), res, None)
            else:
                out = Outcome("ok", res, None, None, None)
        else:
            d.addErrback(lambda f: None)    # abandoned
            out = Outcome(status, None, "GridHung" if status == "hung" else "GridTimeout", None, hung_info)
        if outcome:
            return out
        if out.status == "ok":
            return out.value
        if out.status == "error":
            out.failure.raiseException()
        if out.status == "hung":
            raise GridHung(hung_info)
        raise GridTimeout("no result after %.1f s (%d calls issued)" % (limit, self.sched.issued))

    def set_faults(self, faults):
        self.sched.set_faults(faults)

    # -- clients -------------------------------------------------------------------
    def client(self, i=0):
        return self.g.clients[i]

    def set_encoding(self, k=None, n=None, happy=None, max_segment_size=None, client=0):
        p = self.client(client).encoding_params
        if k is not None:
            p["k"] = k
        if n is not None:
            p["n"] = n
        if happy is not None:
            p["happy"] = happy
        if max_segment_size is not None:
            p["max_segment_size"] = max_segment_size
        return dict(p)

    def upload_results(self, data, convergence=b"", client=0):
        from allmydata.immutable import upload
        if isinstance(data, (bytes, bytearray)):
            data = upload.Data(bytes(data), convergence)
        return self.client(client).upload(data)

    def upload(self, data, convergence=b"", client=0):
        d = self.upload_results(data, convergence, client)
        d.addCallback(lambda ur: ur.get_uri())
        return d

    def node(self, cap, client=0):
        return self.client(client).create_node_from_uri(cap)

    def download(self, cap, client=0):
        from allmydata.util.consumer import download_to_data
        return download_to_data(self.node(cap, client))

    def download_range(self, cap, offset, size, client=0):
        from allmydata.util.consumer import download_to_data
        return download_to_data(self.node(cap, client), offset, size)

    def keypair(self, i=0, bits=2048):
        """(public, private) RSA keypair number i: the first 12 come from the
        fixture file rsa_test_keys.json (same keys in every process, so the
        storage index of mutable file i is reproducible), others are generated
        once per process."""
        key = (bits, i)
        if key not in _keypairs:
            from allmydata.crypto import rsa
            fixture = _fixture_keys() if bits == 2048 else []
            if 0 <= i < len(fixture):
                priv, pub = rsa.create_signing_keypair_from_string(bytes.fromhex(fixture[i]))
            else:
                priv, pub = rsa.create_signing_keypair(bits)
            _keypairs[key] = (pub, priv)
        return _keypairs[key]

    def create_mutable(self, data=b"", version="sdmf", client=0, keypair=None):
        from allmydata.interfaces import SDMF_VERSION, MDMF_VERSION
        from allmydata.mutable.publish import MutableData
        v = {"sdmf": SDMF_VERSION, "mdmf": MDMF_VERSION}.get(version, version)
        return self.client(client).create_mutable_file(MutableData(data), version=v, unique_keypair=keypair)

    def _mnode(self, x, client):
        return self.node(x, client) if isinstance(x, (bytes, str)) else x

    def mutable_read(self, node_or_cap, client=0):
        return self._mnode(node_or_cap, client).download_best_version()

    def mutable_overwrite(self, node_or_cap, data, client=0):
        from allmydata.mutable.publish import MutableData
        return self._mnode(node_or_cap, client).overwrite(MutableData(data))

    # -- servers -------------------------------------------------------------------
    def server(self, i):
        return self.g.servers_by_number[i]

    @property
    def server_ids(self):
        return {i: ss.my_nodeid for i, ss in self.g.servers_by_number.items()}

    def server_index(self, serverid):
        for i, ss in self.g.servers_by_number.items():
            if ss.my_nodeid == serverid:
                return i
        raise KeyError(serverid)

    def _si(self, cap_or_si):
        from allmydata import uri
        if isinstance(cap_or_si, str):
            cap_or_si = cap_or_si.encode("ascii")
        if cap_or_si.startswith(b"URI:"):
            return uri.from_string(cap_or_si).get_storage_index()
        return cap_or_si

    def find_shares(self, cap_or_si):
        from allmydata.storage.server import storage_index_to_dir
        si = self._si(cap_or_si)
        out = []
        if si is None:
            return out
        prefixdir = storage_index_to_dir(si)
        for i, ss in self.g.servers_by_number.items():
            d = os.path.join(ss.sharedir, prefixdir)
            if not os.path.isdir(d):
                continue
            for f in os.listdir(d):
                if f.isdigit():
                    out.append(Share(int(f), i, os.path.join(d, f)))
        return sorted(out)

    def share_map(self, cap_or_si):
        m = {}
        for sh in self.find_shares(cap_or_si):
            m.setdefault(sh.server, []).append(sh.shnum)
        return {i: sorted(v) for i, v in sorted(m.items())}

    def read_share(self, sh):
        with open(sh.path, "rb") as f:
            return f.read()

    def write_share(self, sh, data):
        with open(sh.path, "wb") as f:
            f.write(data)

    def delete_share(self, sh):
        os.unlink(sh.path)

    def delete_shares(self, cap_or_si, shnums=None, servers=None):
        n = 0
        for sh in self.find_shares(cap_or_si):
            if (shnums is None or sh.shnum in shnums) and (servers is None or sh.server in servers):
                os.unlink(sh.path)
                n += 1
        return n

    def share_data_offset(self, sh):
        with open(sh.path, "rb") as f:
            head = f.read(32)
        from allmydata.storage.mutable import MutableShareFile
        if head.startswith(b"Tahoe mutable container v") or MutableShareFile.is_valid_header(head):
            return MutableShareFile.DATA_OFFSET          # 468: header + four lease slots
        return 12                                        # immutable ShareFile: version, size, lease count

    def corrupt_share(self, sh, offset=None, xor=1, fn=None, rng=None):
        data = bytearray(self.read_share(sh))
        if fn is not None:
            new = fn(bytes(data))
        else:
            if offset is None:
                rng = rng or self.sched.rng
                base = self.share_data_offset(sh)
                offset = rng.randrange(base, len(data)) if len(data) > base else 0
            data[offset % len(data)] ^= (xor & 0xFF) or 1
            new = bytes(data)
        self.write_share(sh, new)
        return offset

    def set_readonly(self, i, on=True):
        self.server(i).readonly_storage = bool(on)

    def set_full(self, i, on=True):
        ss = self.server(i)
        if on:
            ss.get_available_space = lambda: 0
        elif "get_available_space" in ss.__dict__:
            del ss.__dict__["get_available_space"]

    def break_server(self, i, count=True):
        for w in self._wrappers(i):
            w.broken = count

    def unbreak_server(self, i):
        for w in self._wrappers(i):
            w.broken = False

    def hang_server(self, i):
        for w in self._wrappers(i):
            if w.hung_until is None:
                w.hung_until = self.T["defer"].Deferred()

    def unhang_server(self, i):
        for w in self._wrappers(i):
            if w.hung_until is not None:
                d, w.hung_until = w.hung_until, None
                d.callback(None)

    def remove_server(self, i):
        ss = self.g.servers_by_number[i]
        self.g.remove_server(ss.my_nodeid)
        self._rebuild()
        return ss

    def add_server(self, i, readonly=False, ss=None):
        if ss is None:
            ss = self.g.make_server(i, readonly)
            self.g.add_server(i, ss)
            if not getattr(self, "_crawlers", False):
                self._stop_crawlers(ss)
        else:
            nn = self.T["no_network"]
            sid = ss.my_nodeid
            self.g.servers_by_number[i] = ss
            from allmydata.storage.server import FoolscapStorageServer
            w = nn.wrap_storage_server(FoolscapStorageServer(ss))
            self.g.wrappers_by_id[sid] = w
            self.g.proxies_by_id[sid] = nn.NoNetworkServer(sid, w)
        self._adopt_server(i)
        self._rebuild()
        return ss

    def storage_broker_order(self, cap_or_si, client=0):
        si = self._si(cap_or_si)
        sb = self.client(client).get_storage_broker()
        return [self.server_index(s.get_serverid()) for s in sb.get_servers_for_psi(si)]

    # -- teardown -------------------------------------------------------------------
    def close(self):
        if self.closed:
            return
        self.closed = True
        T = self.T
        try:
            # stop the services; listening ports close asynchronously
            d = T["defer"].maybeDeferred(self.s.stopService)
            box = []
            d.addBoth(box.append)
            t_end = time.monotonic() + 10
            while not box and time.monotonic() < t_end:
                T["reactor"].iterate(0.001)
            self.pump()
            # cancel what this grid left on the reactor (overdue timers, bucket-writer
            # timeouts) -- unless another grid is still alive (nested use)
            _live.discard(id(self))
            if not _live:
                for dc in T["reactor"].getDelayedCalls():
                    try:
                        dc.cancel()
                    except Exception:
                        pass
        finally:
            for c in reversed(self._cleanups):
                try:
                    c()
                except Exception:
                    pass
            from allmydata.util import cputhreadpool
            cputhreadpool._DISABLED = self._old_disabled
            try:
                T["log"].removeObserver(self._observer)
            except ValueError:
                pass
            if not self.keep:
                shutil.rmtree(self.basedir, ignore_errors=True)


def _error_name(f):
    """Class name of the innermost error (RemoteException unwrapped once)."""
    try:
        v = f.value
        inner = getattr(v, "failure", None)
        if inner is not None and f.type.__name__ == "RemoteException":
            return "RemoteException:" + inner.type.__name__
        return f.type.__name__
    except Exception:
        return "Failure"


def run_grid(fn, num_clients=1, num_servers=10, k=3, n=10, happy=1, max_segment_size=None, seed=0,
             basedir=None, faults=None, timeout=60.0, outcome=False, **kw):
    """Build a grid, run fn(grid) to completion under the seeded scheduler,
    tear the grid down, return fn's result (see module docstring)."""
    with Grid(num_clients=num_clients, num_servers=num_servers, k=k, n=n, happy=happy,
              max_segment_size=max_segment_size, seed=seed, faults=faults, timeout=timeout,
              basedir=basedir, **kw) as g:
        return g.run(lambda: fn(g), outcome=outcome)


# ---------------------------------------------------------------------------
# subprocess runner
# ---------------------------------------------------------------------------
def run_job_subprocess(target, job, timeout=300):
    """Run `module:function`(job) in a fresh interpreter; JSON in, JSON out.
    Raises GridTimeout when the child exceeds `timeout` (child is killed) and
    RuntimeError (with the child's stderr tail) when it fails."""
    cmd = [env.PYTHON, os.path.abspath(__file__), "--job", target]
    e = env.child_env({"VERIF_ENV_READY": "1", "VERIF_SCRATCH": env.subdir("jobs")})
    try:
        p = subprocess.run(cmd, input=json.dumps(job).encode(), stdout=subprocess.PIPE, stderr=subprocess.PIPE,
                           env=e, cwd=env.subdir("jobs"), timeout=timeout)
    except subprocess.TimeoutExpired:
        raise GridTimeout("job %s exceeded %s s" % (target, timeout))
    if p.returncode != 0:
        raise RuntimeError("job %s failed (rc %d): %s" % (target, p.returncode, p.stderr.decode(errors="replace")[-2000:]))
    line = p.stdout.decode().strip().split("\n")[-1]
    return json.loads(line)


def _job_main(target):
    import importlib
    modname, fname = target.split(":")
    fn = getattr(importlib.import_module(modname), fname)
    job = json.loads(sys.stdin.read())
    out = fn(job)
    sys.stdout.write("\n" + json.dumps(out) + "\n")


def _selftest_job(job):
    data = bytes.fromhex(job["data"])
    with Grid(num_servers=4, k=2, n=4, max_segment_size=64, seed=job["seed"]) as g:
        cap = g.run(g.upload(data, convergence=b"x"))
        return {"cap": cap.decode(), "ok": g.run(g.download(cap)) == data}


# ---------------------------------------------------------------------------
# self-test
# ---------------------------------------------------------------------------
def selftest():
    t0 = time.time()
    data = bytes(random.Random(1).getrandbits(8) for _ in range(5000))
    caps = set()
    traces = []
    for seed in (1, 2, 1):
        with Grid(num_servers=5, k=2, n=5, happy=1, max_segment_size=1000, seed=seed) as g:
            cap = g.run(g.upload(data, convergence=b"s"))
            caps.add(cap)
            assert g.run(g.download(cap)) == data
            assert g.run(g.download_range(cap, 990, 30)) == data[990:1020]
            assert sorted(sum(g.share_map(cap).values(), [])) == list(range(5)), g.share_map(cap)
            traces.append(list(g.sched.trace))
            assert not g.logged_errors, g.logged_errors
    assert len(caps) == 1
    assert traces[0] == traces[2], "same seed must give the same schedule"
    assert traces[0] != traces[1], "different seeds should give different schedules"
    t_grid = (time.time() - t0) / 3

    # one-shot style with an inlineCallbacks-style generator and an async def
    def gen(g):
        cap = yield g.upload(b"a" * 100)
        got = yield g.download(cap)
        return (cap, got)
    cap, got = run_grid(gen, num_servers=3, k=1, n=3, seed=5)
    assert got == b"a" * 100

    async def co(g):
        cap = await g.upload(b"tiny")
        return cap
    assert run_grid(co, num_servers=1, k=1, n=1).startswith(b"URI:LIT:")

    # faults: corrupt a read answer -> download still succeeds from other shares; drop all -> hung or error
    with Grid(num_servers=4, k=2, n=4, max_segment_size=500, seed=3) as g:
        cap = g.run(g.upload(data, convergence=b"s"))
        shares = g.find_shares(cap)
        assert len(shares) == 4
        g.set_faults([{"method": "read", "nth": 1, "action": "corrupt", "how": "flip", "offset": 3}])
        assert g.run(g.download(cap)) == data
        g.set_faults([{"method": "get_buckets", "count": None, "action": "drop"}])
        out = g.run(g.download(cap), outcome=True)
        assert out.status == "hung", out
        assert out.hung_info["lost"], out
        g.set_faults([{"method": "get_buckets", "count": None, "action": "error"}])
        out = g.run(g.download(cap), outcome=True)
        assert out.status == "error" and out.error == "NoSharesError", out
        g.set_faults([{"server": shares[0].server, "method": "get_buckets", "action": "delay"}])
        assert g.run(g.download(cap)) == data
        g.set_faults(None)
        # share manipulation
        g.delete_share(shares[0])
        g.corrupt_share(shares[1])
        assert g.run(g.download(cap)) == data
        g.delete_share(shares[2])
        g.delete_share(shares[1])
        out = g.run(g.download(cap), outcome=True)
        assert out.status == "error" and out.error in ("NotEnoughSharesError", "NoSharesError"), out.status
    # read-only / full / broken servers, several clients, mutable files
    with Grid(num_clients=2, num_servers=4, k=1, n=4, happy=1, seed=9) as g:
        g.set_readonly(0)
        g.set_full(1)
        g.break_server(2)
        cap = g.run(g.upload(b"z" * 1000, convergence=None))
        assert list(g.share_map(cap)) == [3], g.share_map(cap)
        g.unbreak_server(2)
        assert g.run(g.download(cap, client=1)) == b"z" * 1000
        node = g.run(g.create_mutable(b"v1", "sdmf", keypair=g.keypair(0)))
        assert g.run(g.mutable_read(node.get_uri(), client=1)) == b"v1"
        msh = g.find_shares(node.get_uri())
        assert msh and g.share_data_offset(msh[0]) == 468, (len(msh), g.share_data_offset(msh[0]))
        g.run(g.mutable_overwrite(node, b"v2-longer"))
        assert g.run(g.mutable_read(node.get_uri(), client=1)) == b"v2-longer"
        m = g.run(g.create_mutable(b"m" * 3000, "mdmf", keypair=g.keypair(1)))
        assert g.run(g.mutable_read(m)) == b"m" * 3000
    t1 = time.time()
    r = run_job_subprocess("core.grid:_selftest_job", {"data": data.hex(), "seed": 4}, timeout=120)
    assert r["ok"] is True
    t_sub = time.time() - t1
    print("selftest ok: %.3f s per in-process grid (build+upload+2 downloads+teardown), subprocess job %.2f s, total %.1f s" % (
        t_grid, t_sub, time.time() - t0))


if __name__ == "__main__":
    if len(sys.argv) >= 3 and sys.argv[1] == "--job":
        _job_main(sys.argv[2])
    elif "--selftest" in sys.argv:
        selftest()
    else:
        print(__doc__)
