"""Building the Coq development and evaluating model terms inside Coq."""
import concurrent.futures
import fcntl
import glob
import os
import re
import subprocess
import time

from . import env

DIRS = ["Lib", "Gen", "Model", "Proofs", "Props"]
FORBIDDEN = re.compile(
    r"\b(Admitted|admit|Axiom|Axioms|Parameter|Parameters|Conjecture|Conjectures|"
    r"Admit\s+Obligations|bypass_check)\b|Unset\s+Guard|Unset\s+Positivity|"
    r"Unset\s+Universe\s+Checking|type-in-type|impredicative-set"
)
# Hypothesis/Variable are allowed only inside Sections; checked separately.


class Lock(object):
    def __init__(self):
        self.path = os.path.join(env.COQ, ".build.lock")

    def __enter__(self):
        self.f = open(self.path, "w")
        fcntl.flock(self.f, fcntl.LOCK_EX)
        return self

    def __exit__(self, *a):
        fcntl.flock(self.f, fcntl.LOCK_UN)
        self.f.close()


def all_sources():
    out = []
    for d in DIRS:
        out += sorted(glob.glob(os.path.join(env.COQ, d, "*.v")))
    return [os.path.relpath(p, env.COQ) for p in out]


def strip_comments(text):
    """Remove (nested) Coq comments and string literals."""
    out = []
    depth = 0
    i = 0
    n = len(text)
    instr = False
    while i < n:
        c = text[i]
        if instr:
            if c == '"':
                instr = False
            i += 1
            continue
        if text.startswith("(*", i):
            depth += 1
            i += 2
            continue
        if depth and text.startswith("*)", i):
            depth -= 1
            i += 2
            continue
        if depth:
            i += 1
            continue
        if c == '"':
            instr = True
            i += 1
            continue
        out.append(c)
        i += 1
    return "".join(out)


def lint(cid=None):
    """No Admitted/admit/Axiom/Parameter/... ; Variable/Hypothesis only inside a
    Section.  With `cid`, only Props/<cid>.v and its dependency cone are
    scanned (what the property's theorems rest on); without, every file.
    Returns a list of problems (empty = clean)."""
    problems = []
    if cid is None:
        files = all_sources()
    else:
        files = ["Props/%s.v" % cid] + _vfile_deps("Props/%s.v" % cid)
    for rel in files:
        text = strip_comments(open(os.path.join(env.COQ, rel)).read())
        for m in FORBIDDEN.finditer(text):
            line = text.count("\n", 0, m.start()) + 1
            problems.append("%s:%d: forbidden %r" % (rel, line, m.group(0)))
        depth = 0
        for ln, line in enumerate(text.split("\n"), 1):
            s = line.strip()
            if re.match(r"^(Section|Module\s+Type)\s", s):
                if s.startswith("Section"):
                    depth += 1
            elif re.match(r"^End\s", s) and depth > 0:
                depth -= 1
            elif re.match(r"^(Variable|Variables|Hypothesis|Hypotheses|Context)\b", s) and depth == 0:
                problems.append("%s:%d: %s outside a Section" % (rel, ln, s.split()[0]))
    return problems


def regen_project():
    """(Re)write _CoqProject and the Makefile when the file list changes."""
    srcs = all_sources()
    text = "-Q . Verif\n-arg -w -arg -notation-overridden,-deprecated-hint-without-locality,-deprecated-instance-without-locality\n" + "\n".join(srcs) + "\n"
    proj = os.path.join(env.COQ, "_CoqProject")
    old = open(proj).read() if os.path.exists(proj) else None
    mk = os.path.join(env.COQ, "Makefile")
    if old != text or not os.path.exists(mk):
        with open(proj, "w") as f:
            f.write(text)
        subprocess.run(
            ["coq_makefile", "-f", "_CoqProject", "-o", "Makefile"],
            cwd=env.COQ, check=True, stdout=subprocess.PIPE, stderr=subprocess.STDOUT,
        )


def make(targets, timeout=1500, jobs=16):
    """Full .vo build of the given targets (paths relative to coq/).  Returns
    (ok, output)."""
    with Lock():
        regen_project()
        cmd = ["timeout", str(timeout), "make", "-j%d" % jobs] + list(targets)
        p = subprocess.run(cmd, cwd=env.COQ, stdout=subprocess.PIPE, stderr=subprocess.STDOUT, text=True)
        return p.returncode == 0, p.stdout


def _vfile_deps(rel):
    """Transitive Verif.* dependencies of a .v file, as .vo targets."""
    seen = []
    todo = [rel]
    while todo:
        r = todo.pop()
        path = os.path.join(env.COQ, r)
        if not os.path.exists(path):
            continue
        text = strip_comments(open(path).read())
        for m in re.finditer(r"From\s+Verif\s+Require\s+(?:Import\s+|Export\s+)?(.*?)\.(?=\s|$)", text, re.S):
            for name in m.group(1).split():
                cand = name.replace(".", "/") + ".v"
                if cand not in seen and os.path.exists(os.path.join(env.COQ, cand)):
                    seen.append(cand)
                    todo.append(cand)
        for m in re.finditer(r"(?<!Verif )Require\s+(?:Import\s+|Export\s+)?((?:Verif\.[A-Za-z_.0-9]+?\s+)*Verif\.[A-Za-z_.0-9]+?)\.(?=\s|$)", text, re.S):
            for name in m.group(1).split():
                cand = name[len("Verif."):].replace(".", "/") + ".v"
                if cand not in seen and os.path.exists(os.path.join(env.COQ, cand)):
                    seen.append(cand)
                    todo.append(cand)
    return seen


THEOREM_RE = re.compile(r"^\s*(?:Theorem|Lemma|Corollary|Example|Fact|Remark|Proposition)\s+([A-Za-z_][A-Za-z_0-9']*)", re.M)
PRINT_RE = re.compile(r"^\s*Print\s+Assumptions\s+([A-Za-z_][A-Za-z_0-9'.]*)\s*\.", re.M)


def build_props(cid, timeout=1500, clean_cone=False):
    """Compile Props/<cid>.v (always recompiled) and its dependency cone.
    Returns a dict: ok, output, theorems [names], assumptions {name: [axioms]},
    failed (description of the first failing obligation or None)."""
    rel = "Props/%s.v" % cid
    path = os.path.join(env.COQ, rel)
    res = {"ok": False, "output": "", "theorems": [], "assumptions": {}, "failed": None, "cmd": ""}
    if not os.path.exists(path):
        res["failed"] = "missing " + rel
        return res
    text = strip_comments(open(path).read())
    res["theorems"] = THEOREM_RE.findall(text)
    printed = PRINT_RE.findall(text)
    if clean_cone:
        # thorough tier: clean out-of-tree rebuild of the whole cone in a scratch
        # directory (does not disturb the shared incremental tree)
        import shutil
        work = env.subdir("cone-" + cid)
        cone = [rel] + _vfile_deps(rel)
        for v in cone:
            dst = os.path.join(work, v)
            os.makedirs(os.path.dirname(dst), exist_ok=True)
            shutil.copyfile(os.path.join(env.COQ, v), dst)
        with open(os.path.join(work, "_CoqProject"), "w") as f:
            f.write("-Q . Verif\n-arg -w -arg -notation-overridden,-deprecated-hint-without-locality,-deprecated-instance-without-locality\n" + "\n".join(cone) + "\n")
        subprocess.run(["coq_makefile", "-f", "_CoqProject", "-o", "Makefile"], cwd=work, check=True,
                       stdout=subprocess.PIPE, stderr=subprocess.STDOUT)
        cmd = ["timeout", str(timeout), "make", "-j16", rel + "o"]
        res["cmd"] = "clean out-of-tree rebuild: coq_makefile + make %so over %d files (coqc 8.16.1, full .vo)" % (rel, len(cone))
        res["workdir"] = work
        p = subprocess.run(cmd, cwd=work, stdout=subprocess.PIPE, stderr=subprocess.STDOUT, text=True)
    else:
        with Lock():
            regen_project()
            for ext in (".vo", ".glob", ".vos", ".vok"):
                try:
                    os.unlink(os.path.join(env.COQ, rel[:-2] + ext))
                except OSError:
                    pass
            cmd = ["timeout", str(timeout), "make", "-j16", rel + "o"]
            res["cmd"] = "make -C coq %so  (coqc 8.16.1, full .vo build of the dependency cone)" % rel
            p = subprocess.run(cmd, cwd=env.COQ, stdout=subprocess.PIPE, stderr=subprocess.STDOUT, text=True)
    res["output"] = p.stdout
    res["ok"] = p.returncode == 0
    if not res["ok"]:
        m = re.search(r'File "([^"]+)", line (\d+)[^\n]*\n(Error:.*?)(?:\n\n|\Z)', p.stdout, re.S)
        if m:
            fname, line, err = m.group(1), int(m.group(2)), m.group(3)
            thm = None
            try:
                src = open(os.path.join(env.COQ, fname) if not os.path.isabs(fname) else fname).read().split("\n")
                for l in range(min(line, len(src)) - 1, -1, -1):
                    mm = THEOREM_RE.match(src[l])
                    if mm:
                        thm = mm.group(1)
                        break
            except OSError:
                pass
            res["failed"] = "%s line %d%s: %s" % (fname, line, (" (in %s)" % thm) if thm else "", " ".join(err.split())[:400])
        else:
            res["failed"] = "build of %s failed: %s" % (rel, " ".join(p.stdout.split())[-400:])
        return res
    # Parse Print Assumptions output, in order of appearance -- only what coqc printed while
    # compiling Props/<cid>.v itself (a dependency may print reports of its own)
    tail = p.stdout
    marker = "COQC %s" % rel
    if marker in tail:
        tail = tail[tail.rindex(marker):]
    chunks = re.split(r"(?m)^(Closed under the global context|Axioms:)\s*$", tail)
    reports = []
    i = 1
    while i < len(chunks):
        head = chunks[i]
        body = chunks[i + 1] if i + 1 < len(chunks) else ""
        if head.startswith("Closed"):
            reports.append([])
        else:
            axs = []
            for line in body.split("\n"):
                if not line.strip():
                    if axs:
                        break
                    continue
                m = re.match(r"^([A-Za-z_][A-Za-z_0-9'.]*)\s*:", line)
                if m:
                    axs.append(m.group(1))
                elif not line.startswith(" ") and axs:
                    break
            reports.append(axs)
        i += 2
    if len(reports) == len(printed):
        for name, axs in zip(printed, reports):
            res["assumptions"][name] = axs
    else:
        res["ok"] = False
        res["failed"] = "could not match Print Assumptions output (%d reports for %d commands)" % (len(reports), len(printed))
    return res


def allowed_axioms():
    p = os.path.join(env.COQ, "ALLOWED_AXIOMS.txt")
    out = set()
    if os.path.exists(p):
        for line in open(p):
            line = line.split("#")[0].strip()
            if line:
                out.add(line)
    return out


def coqchk(cid, timeout=3000, workdir=None):
    cmd = ["timeout", str(timeout), "coqchk", "-silent", "-o", "-Q", ".", "Verif", "Verif.Props.%s" % cid]
    if workdir:
        p = subprocess.run(cmd, cwd=workdir, stdout=subprocess.PIPE, stderr=subprocess.STDOUT, text=True)
    else:
        with Lock():
            p = subprocess.run(cmd, cwd=env.COQ, stdout=subprocess.PIPE, stderr=subprocess.STDOUT, text=True)
    return p.returncode == 0, p.stdout


# ---------------------------------------------------------------------------
# Evaluating model terms (correspondence): generated cases files + vm_compute
# ---------------------------------------------------------------------------

_HEADER = """From Coq Require Import List NArith ZArith Bool String.
Import ListNotations.
"""

_FAILING = """
Fixpoint verif_failing_ (i : nat) (l : list bool) : list nat :=
  match l with
  | nil => nil
  | b :: r => if b then verif_failing_ (S i) r else i :: verif_failing_ (S i) r
  end.
"""


def _coqc(path, timeout):
    cmd = ["timeout", str(timeout), "coqc", "-Q", env.COQ, "Verif", "-w", "-all", path]
    p = subprocess.run(cmd, cwd=os.path.dirname(path), stdout=subprocess.PIPE, stderr=subprocess.STDOUT, text=True)
    return p.returncode, p.stdout


def check_bools(imports, terms, preamble="", shard=400, timeout=600, tag="cases"):
    """Each element of `terms` is Coq source for a closed term of type bool
    (normally `eqb (model input) expected`).  Evaluates them all with
    vm_compute in shards run in parallel and returns (failing_indices, errors).
    `imports` are module names under Verif (e.g. "Model.Spans")."""
    d = env.subdir(tag + "-%d" % int(time.time() * 1000 % 10**9))
    files = []
    for s in range(0, len(terms), shard):
        part = terms[s:s + shard]
        name = "cases_%s_%d" % (re.sub(r"\W", "_", tag), s // shard)
        path = os.path.join(d, name + ".v")
        with open(path, "w") as f:
            f.write(_HEADER)
            for imp in imports:
                f.write("From Verif Require Import %s.\n" % imp)
            f.write("Local Open Scope string_scope.\nLocal Open Scope bool_scope.\nLocal Open Scope N_scope.\nLocal Open Scope list_scope.\n")
            f.write(preamble + "\n")
            f.write(_FAILING)
            for i, t in enumerate(part):
                f.write("Definition verif_case_%d : bool := %s.\n" % (i, t))
            f.write("Definition verif_cases_ : list bool := [%s].\n" % "; ".join("verif_case_%d" % i for i in range(len(part))))
            f.write("Eval vm_compute in (verif_failing_ 0 verif_cases_).\n")
        files.append((s, path))
    failing = []
    errors = []

    def one(item):
        s, path = item
        rc, out = _coqc(path, timeout)
        return s, path, rc, out

    with concurrent.futures.ThreadPoolExecutor(max_workers=8) as ex:
        for s, path, rc, out in ex.map(one, files):
            if rc != 0:
                errors.append("coqc failed on %s: %s" % (path, " ".join(out.split())[:600]))
                continue
            m = re.search(r"=\s*(\[.*?\]|nil)(?:%\w+)?\s*:\s*list nat", out, re.S)
            if not m:
                errors.append("unparsable coqc output for %s: %s" % (path, out[:300]))
                continue
            for tok in re.findall(r"\d+", m.group(1)):
                failing.append(s + int(tok))
    return sorted(failing), errors


def eval_raw(imports, term, preamble="", timeout=300, tag="eval"):
    """Evaluate one term with vm_compute and return Coq's printed answer
    (used to show the model's side of a replay)."""
    d = env.subdir(tag + "-%d" % int(time.time() * 1000 % 10**9))
    path = os.path.join(d, "eval_one.v")
    with open(path, "w") as f:
        f.write(_HEADER)
        for imp in imports:
            f.write("From Verif Require Import %s.\n" % imp)
        f.write("Local Open Scope string_scope.\nLocal Open Scope bool_scope.\nLocal Open Scope N_scope.\nLocal Open Scope list_scope.\n")
        f.write(preamble + "\n")
        f.write("Eval vm_compute in (%s).\n" % term)
    rc, out = _coqc(path, timeout)
    return rc == 0, out.strip()
