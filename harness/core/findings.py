"""known_findings.jsonl: genuine defects recorded rather than repaired.

One JSON object per line:
  {"property": "C38", "kind": "<failure kind>", "status": "known"|"fixed",
   "what": "...", "commit": "<sha, for fixed>", "match": {optional extra keys that
   must equal the failure's}}
Only status "known" suppresses (prints KNOWN-FINDING, exit status unaffected);
"fixed" entries are a record and suppress nothing.  Never written at run time.
"""
import json
import os

from . import env

PATH = os.path.join(env.VERIF, "known_findings.jsonl")


def load(pid):
    out = []
    if not os.path.exists(PATH):
        return out
    for line in open(PATH):
        line = line.strip()
        if not line or line.startswith("#"):
            continue
        rec = json.loads(line)
        if rec.get("property") == pid and rec.get("status") == "known":
            out.append(rec)
    return out


def match(known, failure):
    for k in known:
        if k["kind"] != failure.get("kind"):
            continue
        extra = k.get("match") or {}
        if all(failure.get(a) == b for a, b in extra.items()):
            return k
    return None
