"""Paths, interpreter environment and scratch space for the verification harness."""
import atexit
import os
import shutil
import sys
import tempfile

VERIF = os.path.dirname(os.path.dirname(os.path.dirname(os.path.abspath(__file__))))
REPO = os.environ.get("VERIF_REPO", "/repo")
COQ = os.environ.get("VERIF_COQ") or os.path.join(VERIF, "coq")
HARNESS = os.path.join(VERIF, "harness")
SHIMS = os.path.join(VERIF, "shims")
EVIDENCE = os.environ.get("VERIF_EVIDENCE") or os.path.join(VERIF, "evidence")
REPLAYS = os.environ.get("VERIF_REPLAYS") or os.path.join(VERIF, "replays")
CORPUS = os.path.join(VERIF, "corpus")
PYTHON = "/venv/bin/python"
GUARD = "TAHOE_LAFS_VERIF"

_scratch = None


def ensure_interpreter():
    """Re-exec under /venv/bin/python with the environment every driver relies
    on: PYTHONPATH=/repo/src:/verif/shims:/verif/harness, PYTHONHASHSEED=0 and
    the hook guard switched on."""
    want_path = os.pathsep.join([os.path.join(REPO, "src"), SHIMS, HARNESS])
    ok = (
        os.environ.get("PYTHONHASHSEED") == "0"
        and os.environ.get("VERIF_ENV_READY") == "1"
        and os.path.realpath(sys.executable) == os.path.realpath(PYTHON)
    )
    if ok:
        return
    env = dict(os.environ)
    env["PYTHONHASHSEED"] = "0"
    env["PYTHONPATH"] = want_path
    env["VERIF_ENV_READY"] = "1"
    env[GUARD] = "1"
    env["PYTHONDONTWRITEBYTECODE"] = "1"
    env.setdefault("OCAMLRUNPARAM", "l=4G")
    os.execve(PYTHON, [PYTHON] + sys.argv, env)


def child_env(extra=None):
    env = dict(os.environ)
    env["PYTHONHASHSEED"] = "0"
    env["PYTHONPATH"] = os.pathsep.join([os.path.join(REPO, "src"), SHIMS, HARNESS])
    env[GUARD] = "1"
    env["PYTHONDONTWRITEBYTECODE"] = "1"
    if extra:
        env.update(extra)
    return env


def scratch():
    """Per-run scratch directory outside /repo, /verif and /tmp; removed at exit."""
    global _scratch
    if _scratch is None:
        base = os.environ.get("VERIF_SCRATCH", "/var/tmp")
        os.makedirs(base, exist_ok=True)
        _scratch = tempfile.mkdtemp(prefix="verif-%d-" % os.getpid(), dir=base)
        atexit.register(lambda: shutil.rmtree(_scratch, ignore_errors=True))
    return _scratch


def subdir(name):
    p = os.path.join(scratch(), name)
    os.makedirs(p, exist_ok=True)
    return p
