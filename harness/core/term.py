"""Rendering Python values as Coq terms for generated case files.

Bytes are rendered as `(unhex "0a1b")` (Verif.Lib.Hex) : list N, strings as
Coq `string` literals (ASCII only; anything else must go through bytes)."""


def N(n):
    assert n >= 0
    return "%d%%N" % n


def Z(n):
    return "(%d)%%Z" % n


def nat(n):
    assert 0 <= n < 5000, "large nat literals stall Coq; use N"
    return "%d%%nat" % n


def boolean(b):
    return "true" if b else "false"


def bytes_(b):
    return '(unhex "%s")' % bytes(b).hex()


def string(s):
    assert all(32 <= ord(c) < 127 for c in s), "non-ASCII/control string: use bytes_"
    return '"%s"%%string' % s.replace('"', '""')


def lst(items):
    return "[" + "; ".join(items) + "]"


def opt(x):
    return "None" if x is None else "(Some %s)" % x


def pair(*xs):
    return "(" + ", ".join(xs) + ")"


def app(f, *args):
    return "(" + " ".join([f] + list(args)) + ")"
