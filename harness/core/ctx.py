"""Run context handed to every property driver (harness/props/cNN.py)."""
import collections
import hashlib
import json
import os
import random
import time

from . import coq, env


class Failure(dict):
    """A concrete observation against the property or the correspondence.

    source: "oracle"          the property statement itself fails on /repo's code
            "correspondence"  model and implementation disagree on this case
            "obligation"      a proof/translator obligation no longer checks
    kind:   stable classification used to match known findings (must be as
            specific as the defect: input class / call site), e.g.
            "base62-a2b-accepts-out-of-alphabet".
    """


class Ctx(object):
    def __init__(self, pid, tier, seed, search=False):
        self.pid = pid
        self.tier = tier
        self.seed = seed
        self.search = search          # True while looking for a failing input after a broken obligation
        self.t0 = time.time()
        self.failures = []
        self.stats = collections.Counter()
        self.samples = []
        self._nontrivial = set()
        self.evaluations = 0
        self.traces = 0
        self.notes = []
        self.correspondences = []     # names of correspondences exercised
        self.deadline = None

    # ----- budgets and randomness ------------------------------------------------
    def n(self, quick, thorough=None):
        """Case budget for this tier (search mode uses the thorough budget)."""
        if thorough is None:
            thorough = quick * 10
        return thorough if (self.tier == "thorough" or self.search) else quick

    def rng(self, *key):
        """PRNG derived from (seed, property, key): any single case replays alone."""
        h = hashlib.sha256(repr((self.seed, self.pid) + tuple(key)).encode()).digest()
        return random.Random(int.from_bytes(h[:8], "big"))

    def elapsed(self):
        return time.time() - self.t0

    # ----- bookkeeping -----------------------------------------------------------
    def count(self, key, n=1):
        self.stats[key] += n

    def case(self, nontrivial_key=None, kind=None):
        """Record one evaluated case.  `nontrivial_key` is a hashable canonical
        form of the case when it reaches the non-error path / a non-trivial
        state (None for trivial cases); distinct keys are counted."""
        self.evaluations += 1
        if kind:
            self.stats["kind:" + kind] += 1
        if nontrivial_key is not None:
            self._nontrivial.add(hashlib.sha1(repr(nontrivial_key).encode()).digest()[:10])

    def sample(self, obj, limit=6):
        if len(self.samples) < limit:
            self.samples.append(obj)

    def trace(self, n=1):
        self.traces += n

    @property
    def distinct_nontrivial(self):
        return len(self._nontrivial)

    def note(self, s):
        self.notes.append(s)

    def correspondence(self, name):
        if name not in self.correspondences:
            self.correspondences.append(name)

    # ----- reporting -------------------------------------------------------------
    def fail(self, source, kind, what, case=None, expected=None, observed=None, **extra):
        f = Failure(source=source, kind=kind, what=what, case=case, expected=expected, observed=observed)
        f.update(extra)
        self.failures.append(f)
        return f

    def oracle_fail(self, kind, what, case=None, expected=None, observed=None, **extra):
        return self.fail("oracle", kind, what, case, expected, observed, **extra)

    def mismatch(self, kind, what, case=None, expected=None, observed=None, **extra):
        return self.fail("correspondence", kind, what, case, expected, observed, **extra)

    # ----- model evaluation ------------------------------------------------------
    def coq_check(self, imports, terms, preamble="", tag=None, shard=400, timeout=900):
        """Evaluate boolean Coq terms (model result == implementation result);
        returns the list of indices that evaluated to false.  A coqc failure is
        itself reported as a broken correspondence."""
        if not terms:
            return []
        failing, errors = coq.check_bools(imports, terms, preamble=preamble, shard=shard, timeout=timeout, tag=tag or self.pid)
        for e in errors:
            self.fail("correspondence", "model-evaluation-error", e)
        return failing

    def coq_eval(self, imports, term, preamble=""):
        ok, out = coq.eval_raw(imports, term, preamble=preamble, tag=self.pid + "-eval")
        return out


def jsonable(x):
    if isinstance(x, (bytes, bytearray)):
        return {"hex": bytes(x).hex()}
    if isinstance(x, dict):
        return {str(k) if not isinstance(k, (bytes, bytearray)) else bytes(k).hex(): jsonable(v) for k, v in x.items()}
    if isinstance(x, (list, tuple)):
        return [jsonable(v) for v in x]
    if isinstance(x, (set, frozenset)):
        return sorted((jsonable(v) for v in x), key=repr)
    if isinstance(x, (int, float, str, bool)) or x is None:
        return x
    return repr(x)


def write_replay(pid, failure, seed, tier):
    os.makedirs(env.REPLAYS, exist_ok=True)
    body = jsonable(dict(failure))
    body["property"] = pid
    body["seed"] = seed
    body["tier"] = tier
    blob = json.dumps(body, sort_keys=True, indent=1)
    digest = hashlib.sha1(blob.encode()).hexdigest()[:12]
    path = os.path.join(env.REPLAYS, "%s-%s.json" % (pid, digest))
    body["replay_cmd"] = "/venv/bin/python harness/check.py %s --replay %s" % (pid, path)
    with open(path, "w") as f:
        json.dump(body, f, sort_keys=True, indent=1)
    return path
