#!/venv/bin/python
"""MANIFEST.setup_cmd: regenerate every Gen module from /repo, then build (full .vo) the
dependency cone of every claimed property (harness/claimed.json).  Files that belong only
to properties still under construction are built too, but their failure is reported, not
fatal: nothing registered in the manifest depends on them."""
import glob
import importlib
import json
import os
import sys

sys.path.insert(0, os.path.dirname(os.path.abspath(__file__)))
from core import env  # noqa: E402

env.ensure_interpreter()
from core import coq  # noqa: E402


def main():
    rc = 0
    claimed = json.load(open(os.path.join(env.HARNESS, "claimed.json")))
    needed_gen = set()
    for pid in claimed:
        m = importlib.import_module("props." + pid.lower())
        needed_gen.update(getattr(m, "GEN", []))
    for path in sorted(glob.glob(os.path.join(env.HARNESS, "translate", "*.py"))):
        name = os.path.basename(path)[:-3]
        if name in ("__init__", "common"):
            continue
        try:
            importlib.import_module("translate." + name).generate()
            print("generated from", name)
        except Exception as e:
            print("translator %s failed: %s: %s" % (name, type(e).__name__, e))
            if name in needed_gen:
                rc = 1
    targets = []
    for pid in claimed:
        problems = coq.lint(pid)
        for p in problems:
            print("LINT:", p)
            rc = 1
        targets.append("Props/%s.vo" % pid)
    ok, out = coq.make(targets, timeout=3400)
    print(out[-2500:])
    if not ok:
        print("Coq build of the claimed properties failed")
        rc = 1
    rest = [s[:-2] + ".vo" for s in coq.all_sources()]
    ok2, out2 = coq.make(["-k"] + rest, timeout=3400)
    if not ok2:
        print("note: some files outside the claimed cones do not build (work in progress):")
        print("\n".join(l for l in out2.split("\n") if "Error" in l or l.startswith("File "))[-1500:])
    print("setup", "FAILED" if rc else "ok", "- claimed:", " ".join(claimed))
    return rc


if __name__ == "__main__":
    sys.exit(main())
