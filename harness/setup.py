#!/venv/bin/python
"""MANIFEST.setup_cmd: regenerate every Gen module from /repo, build the whole Coq
development (full .vo), run the harness self-test."""
import glob
import importlib
import os
import sys

sys.path.insert(0, os.path.dirname(os.path.abspath(__file__)))
from core import env  # noqa: E402

env.ensure_interpreter()
from core import coq  # noqa: E402


def main():
    rc = 0
    for path in sorted(glob.glob(os.path.join(env.HARNESS, "translate", "*.py"))):
        name = os.path.basename(path)[:-3]
        if name in ("__init__", "common"):
            continue
        try:
            importlib.import_module("translate." + name).generate()
            print("generated from", name)
        except Exception as e:
            print("translator %s failed: %s: %s" % (name, type(e).__name__, e))
            rc = 1
    problems = coq.lint()
    for p in problems:
        print("LINT:", p)
    targets = [s[:-2] + ".vo" for s in coq.all_sources()]
    ok, out = coq.make(targets, timeout=3400)
    print(out[-3000:])
    if not ok:
        print("Coq build failed")
        rc = 1
    return rc


if __name__ == "__main__":
    sys.exit(main())
