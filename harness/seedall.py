#!/venv/bin/python
"""Developer aid: run seedtest.py for the given (default: all claimed) properties that have a seeded
change, N at a time; write seeded/<id>/result.json and print a table."""
import concurrent.futures
import json
import os
import subprocess
import sys

V = os.path.dirname(os.path.dirname(os.path.abspath(__file__)))
ids = [a for a in sys.argv[1:] if not a.startswith("-")]
if not ids:
    ids = sorted(d for d in os.listdir(os.path.join(V, "seeded")))
ids = [i for i in ids if os.path.exists(os.path.join(V, "seeded", i, "patch.diff"))]


def one(pid):
    p = subprocess.run(["/venv/bin/python", os.path.join(V, "harness", "seedtest.py"), os.path.join(V, "seeded", pid)] + (["--skip-baseline"] if "--skip-baseline" in sys.argv else []) + (["--skip-demo"] if "--skip-demo" in sys.argv else []),
                       stdout=subprocess.PIPE, stderr=subprocess.STDOUT, text=True)
    try:
        res = json.loads(p.stdout[p.stdout.index("{"):])
    except Exception:
        res = {"property": pid, "error": p.stdout[-500:]}
    res["seedtest_exit"] = p.returncode
    rp = os.path.join(V, "seeded", pid, "result.json")
    if os.path.exists(rp):       # manual annotations survive re-runs
        try:
            for key in ("caught_by_other_check", "note"):
                v = json.load(open(rp)).get(key)
                if v and key not in res:
                    res[key] = v
        except Exception:
            pass
    if "baseline_with_change" not in res and os.path.exists(rp):      # --skip-baseline: keep the earlier baseline verdict
        try:
            old = json.load(open(rp))
            if old.get("baseline_with_change"):
                res["baseline_with_change"] = old["baseline_with_change"]
        except Exception:
            pass
    with open(os.path.join(V, "seeded", pid, "result.json"), "w") as f:
        json.dump(res, f, indent=1)
    return pid, res


with concurrent.futures.ThreadPoolExecutor(max_workers=int(os.environ.get("JOBS", "3"))) as ex:
    for pid, res in ex.map(one, ids):
        print(pid, "applies=%s" % res.get("patch_applies"), "demo=%s/%s" % (res.get("demo_without_change"), str(res.get("demo_with_change"))[:4]),
              "baseline=%s" % str(res.get("baseline_with_change"))[:12], "caught=%s" % res.get("caught"), "concrete=%s" % res.get("concrete_input"))
