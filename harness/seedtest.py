#!/venv/bin/python
"""Run a property's check against a seeded breaking change WITHOUT touching /repo:
   seedtest.py <dir with patch.diff, demo.py, meta.json> [--tier quick] [--keep]
Creates a scratch worktree of /repo's HEAD, applies the patch, runs the demo with and
without the change, the baseline tests with the change, and the registered check with
VERIF_REPO pointing at the patched tree and VERIF_COQ at a private copy of coq/ (so Gen
files regenerated from the mutated tree never disturb the shared build).  Prints a JSON
summary; exit 0 iff the change is a valid seed (demo fails with / passes without, baseline
passes) AND the check caught it (exit 1 + VIOLATION line)."""
import json
import os
import shutil
import subprocess
import sys
import tempfile

VERIF = os.path.dirname(os.path.dirname(os.path.abspath(__file__)))
BASE_TESTS = ("test_abbreviate test_auth test_base32 test_base62 test_codec test_configutil test_crypto test_deferredutil "
              "test_dictutil test_hashutil test_humanreadable test_log test_monitor test_netstring test_observer test_spans test_statistics").split()


def sh(cmd, **kw):
    p = subprocess.run(cmd, stdout=subprocess.PIPE, stderr=subprocess.STDOUT, text=True, **kw)
    return p.returncode, p.stdout


def main():
    d = os.path.abspath(sys.argv[1])
    tier = "quick"
    if "--tier" in sys.argv:
        tier = sys.argv[sys.argv.index("--tier") + 1]
    skip_base = "--skip-baseline" in sys.argv
    meta = json.load(open(os.path.join(d, "meta.json")))
    pid = meta["property"]
    if "--as" in sys.argv:         # run ANOTHER property's check against this change (cross-property catches)
        pid = sys.argv[sys.argv.index("--as") + 1]
    wt = tempfile.mkdtemp(prefix="seed-%s-" % pid, dir="/var/tmp")
    os.rmdir(wt)
    out = {"property": pid, "dir": d}
    try:
        rc, o = sh(["git", "-C", "/repo", "worktree", "add", "--detach", wt, "HEAD"])
        assert rc == 0, o
        envd = dict(os.environ, PYTHONPATH="%s/src:%s/shims" % (wt, VERIF), PYTHONHASHSEED="0", PYTHONDONTWRITEBYTECODE="1")
        scratch = tempfile.mkdtemp(prefix="seedrun-", dir="/var/tmp")
        demo = os.path.join(d, "demo.py")
        skip_demo = "--skip-demo" in sys.argv
        if skip_demo and os.path.exists(os.path.join(d, "result.json")):
            try:
                old = json.load(open(os.path.join(d, "result.json")))
                for key in ("demo_without_change", "demo_with_change"):
                    if old.get(key):
                        out[key] = old[key]
            except Exception:
                pass
        if os.path.exists(demo) and not skip_demo:
            rc, o = sh(["timeout", "600", "/venv/bin/python", demo], cwd=scratch, env=envd)
            out["demo_without_change"] = "PASS" if rc == 0 else "FAIL(rc=%d) %s" % (rc, o[-300:])
        rc, o = sh(["git", "-C", wt, "apply", os.path.join(d, "patch.diff")])
        out["patch_applies"] = rc == 0
        if rc != 0:
            out["patch_error"] = o[-500:]
            print(json.dumps(out, indent=1))
            return 2
        if os.path.exists(demo) and not skip_demo:
            rc, o = sh(["timeout", "600", "/venv/bin/python", demo], cwd=scratch, env=envd)
            out["demo_with_change"] = "PASS" if rc == 0 else "FAIL " + o.strip().split("\n")[-1][:300]
        if not skip_base:
            e2 = dict(os.environ, PYTHONDONTWRITEBYTECODE="1")
            e2.pop("PYTHONPATH", None)
            rc, o = sh(["timeout", "1200", "/venv/bin/python", "-m", "pytest", "-q", "-p", "no:cacheprovider", "--timeout=900",
                        "-x"] + ["src/allmydata/test/%s.py" % t for t in BASE_TESTS], cwd=wt, env=e2)
            out["baseline_with_change"] = o.strip().split("\n")[-1][:200]
        coqcopy = tempfile.mkdtemp(prefix="seedcoq-", dir="/var/tmp")
        os.rmdir(coqcopy)
        sh(["cp", "-a", "--reflink=auto", os.path.join(VERIF, "coq"), coqcopy])
        e3 = dict(os.environ, VERIF_REPO=wt, VERIF_COQ=coqcopy, VERIF_TIER=tier, VERIF_EVIDENCE=os.path.join(scratch, "evidence"), VERIF_REPLAYS=os.path.join(scratch, "replays"))
        e3.pop("VERIF_ENV_READY", None)
        rc, o = sh(["timeout", "3000", "/venv/bin/python", os.path.join(VERIF, "harness", "check.py"), pid, "--tier", tier], cwd=VERIF, env=e3)
        out["check_exit"] = rc
        out["check_lines"] = [l for l in o.split("\n") if l.startswith(("VIOLATION", "KNOWN-FINDING", "  property fails", "broken obligations", pid + " "))][:12]
        out["caught"] = rc == 1 and any(l.startswith("VIOLATION property=%s " % pid) for l in o.split("\n"))
        out["concrete_input"] = out["caught"] and not all("no-failing-input-found" in l for l in o.split("\n") if l.startswith("VIOLATION"))
        shutil.rmtree(coqcopy, ignore_errors=True)
        shutil.rmtree(scratch, ignore_errors=True)
    finally:
        sh(["git", "-C", "/repo", "worktree", "remove", "--force", wt])
        shutil.rmtree(wt, ignore_errors=True)
    print(json.dumps(out, indent=1))
    valid = out.get("demo_without_change") == "PASS" and str(out.get("demo_with_change", "")).startswith("FAIL")
    return 0 if (valid and out.get("caught")) else 1


if __name__ == "__main__":
    sys.exit(main())
