#!/venv/bin/python
"""Developer aid: run the driver of each given property under several seeds (no Coq rebuild) to
flush out false alarms before a property is claimed.  usage: soak.py C11 C12 ... [--seeds 8]"""
import concurrent.futures
import os
import subprocess
import sys

V = os.path.dirname(os.path.dirname(os.path.abspath(__file__)))
ids = [a for a in sys.argv[1:] if not a.startswith("-") and not a.isdigit()]
nseeds = int(sys.argv[sys.argv.index("--seeds") + 1]) if "--seeds" in sys.argv else 6


def one(job):
    pid, seed = job
    env = dict(os.environ, VERIF_SEED=str(seed), VERIF_EVIDENCE="/var/tmp/soak-ev")
    p = subprocess.run(["timeout", "1200", "/venv/bin/python", os.path.join(V, "harness", "check.py"), pid, "--no-build"], cwd=V, env=env,
                       stdout=subprocess.PIPE, stderr=subprocess.STDOUT, text=True)
    bad = [l for l in p.stdout.split("\n") if l.startswith(("VIOLATION", "  property fails", "broken"))]
    return pid, seed, p.returncode, bad


jobs = [(pid, s) for pid in ids for s in range(1, nseeds + 1)]
with concurrent.futures.ThreadPoolExecutor(max_workers=int(os.environ.get("JOBS", "4"))) as ex:
    for pid, seed, rc, bad in ex.map(one, jobs):
        print("%s seed=%d exit=%d %s" % (pid, seed, rc, " | ".join(b[:200] for b in bad[:3])))
